//! Panics in user code (C18), fault enumeration. The harness owns every piece of user code the
//! library calls: the rcu closure (any attempt), the `Into` conversion of its result, the pointee
//! destructor, projection functions, `Constant`'s clone. A plan is (kind, n): the n-th invocation of
//! that kind of user code in a seeded execution panics (tagged payload); n is enumerated up to the
//! number of invocations counted in the same execution run without faults. Every operation runs
//! under `catch_unwind`; after the panic the threads go on with further operations, and at the end
//! the container must hold a legitimately stored value (history with the panicked operation left
//! open), every count must be exact, no slot occupied, all control words idle.
//!
//! Whatever the monitors find after an injected panic is folded into ONE report of kind
//! `post-panic-discrepancy` whose text names the injection context (kind of user code, operation,
//! inside / outside a writer's debt walk) and the normalised discrepancies, so that known findings
//! can be keyed on exactly that.

use std::cell::RefCell;
use std::collections::{BTreeMap, HashMap};
use std::sync::atomic::Ordering::*;
use std::sync::atomic::{AtomicBool, AtomicU64};
use std::sync::{Arc, Mutex};

use arc_swap::{ArcSwapAny, Guard};
use serde_json::json;

use crate::exec::{spawn_worker, Cont, HBarrier, StratExt};
use crate::fault::{self, K_CLOSURE, K_INTO};
use crate::lin::{self, Kind, Op};
use crate::runner;
use crate::sched::{self, hs, Mode, Strat};
use crate::tp::{Tp, Val};
use crate::util::Rng;
use crate::wl_core::{analyze, end_phase, id_block, ExecOut, Profile, Shared, Worker, WorkerResult, ALLW, NOPS, W};

type V = Option<Tp<1>>;

/// Result of the rcu closure that still has to be converted (`R: Into<T>`): the conversion is user code.
struct Conv(V);

impl From<Conv> for V {
    fn from(c: Conv) -> V {
        fault::hit(K_INTO);
        c.0
    }
}

//                      Ld LdD LdF DrG GIn DrO  St  Sw Cas Rcu Snd Rcv StS Ver
const MIX: [u32; NOPS] = [10, 10, 6, 10, 3, 8, 10, 12, 8, 14, 1, 1, 3, 1];

#[derive(Clone, Debug)]
pub struct PanicCfg {
    pub exec_no: u64,
    pub wseed: u64,
    pub sseed: u64,
    pub mode: Mode,
    pub record: bool,
}

fn rcu_into<S: StratExt<V>>(w: &mut Worker<V, S>) {
    let c = w.rng.below(w.conts.len() as u64) as usize;
    let t = w.t;
    let base = w.next_id + 1;
    w.next_id += 64;
    let attempts: RefCell<Vec<(u64, u64, u64, u64, u64)>> = RefCell::new(Vec::new());
    let sh = w.sh.clone();
    let inv = w.stamp();
    let wr = &*w;
    let prev = wr.call(false, || {
        wr.conts[c].rcu(|cur: &V| {
            let entry = sh.clock.fetch_add(1, SeqCst);
            sched::step(hs::CLOSURE);
            wr.pending.borrow_mut().take();
            fault::hit(K_CLOSURE);
            let k = attempts.borrow().len() as u64;
            let out = V::fresh(base + k);
            let out_id = out.vid();
            wr.res.borrow_mut().addr_of.push((out_id, out.addr() as u64));
            let exit = sh.clock.fetch_add(1, SeqCst);
            attempts.borrow_mut().push((entry, exit, cur.vid(), cur.addr() as u64, out_id));
            *wr.pending.borrow_mut() =
                Some(Op { t: t as u8, c: c as u8, kind: Kind::Cas, a: out_id, cur_addr: cur.addr() as u64, ret: lin::ANY, ret_addr: 0, inv: exit, resp: u64::MAX, path: 0 });
            Conv(out)
        })
    });
    let resp = w.stamp();
    w.pending.borrow_mut().take();
    let att = attempts.into_inner();
    let (prev_id, prev_addr) = (prev.vid(), prev.addr() as u64);
    let call_path = w.last_path.replace(0);
    {
        let mut res = w.res.borrow_mut();
        if let Some(first) = att.first() {
            res.ops.push(Op { t: t as u8, c: c as u8, kind: Kind::Load, a: 0, cur_addr: 0, ret: first.2, ret_addr: first.3, inv, resp: first.0, path: call_path });
        }
        for (k, a) in att.iter().enumerate() {
            let (ret, ret_addr, r) = if k + 1 < att.len() { (att[k + 1].2, att[k + 1].3, att[k + 1].0) } else { (prev_id, prev_addr, resp) };
            res.ops.push(Op { t: t as u8, c: c as u8, kind: Kind::Cas, a: a.4, cur_addr: a.3, ret, ret_addr, inv: a.1, resp: r, path: call_path });
            if k + 1 < att.len() {
                res.discarded.push(a.4);
            }
        }
    }
    let o = crate::wl_core::own(prev);
    drop(crate::wl_core::disown(o));
}

pub struct PanicOut {
    pub out: ExecOut,
    pub counts: [u64; 6],
    pub injected: bool,
    pub caught: u64,
}

/// One execution under a fault plan (`plan = None`: count invocations only).
pub fn run_exec<S: StratExt<V>>(p: &Profile, cfg: &PanicCfg, plan: Option<(u8, u64)>) -> PanicOut
where
    Guard<V, S>: Send,
{
    let mut rng = Rng::new(cfg.wseed);
    let nt = if cfg.mode == Mode::Off { 1 } else { rng.range(2, 3) as usize };
    let nc = rng.range(1, 2) as usize;
    let viol_before = crate::viol::count();
    let mut init_ids = Vec::new();
    let mut addr_of: HashMap<u64, u64> = HashMap::new();
    let mut conts: Vec<Cont<V, S>> = Vec::new();
    for _ in 0..nc {
        let v = V::fresh(id_block() + 1);
        init_ids.push(v.vid());
        addr_of.insert(v.vid(), v.addr() as u64);
        conts.push(Arc::new(ArcSwapAny::<V, S>::new(v)));
    }
    let sh = Arc::new(Shared::<V, S> {
        clock: AtomicU64::new(1),
        mailbox: Mutex::new(Vec::new()),
        b1: HBarrier::new(nt),
        b2: HBarrier::new(nt),
        results: Mutex::new(Vec::new()),
        fin: Mutex::new(Vec::new()),
        q1_done: AtomicBool::new(false),
        stop: AtomicBool::new(false),
        profile: p.clone(),
        exec_no: cfg.exec_no,
        step_budget: 100_000,
    });
    let strat = if cfg.mode == Mode::Token {
        let mut srng = Rng::new(cfg.sseed);
        let s = match srng.below(4) {
            0 => Strat::Pct { d: srng.range(1, 3) as u32, horizon: (nt * 16 * 30) as u64 },
            1 => Strat::Adversary { victim: srng.below(nt as u64) as usize, k: srng.range(1, 2) as u32, p: *srng.pick(&[2, 4, 8]) },
            2 => Strat::Windows { p_in: *srng.pick(&[8, 12, 16]), p_out: *srng.pick(&[0, 1, 2]) },
            _ => Strat::Random { sw: *srng.pick(&[2, 4, 8, 16]) },
        };
        sched::token_prepare(nt, cfg.sseed, s.clone(), cfg.record);
        Some(s)
    } else {
        None
    };
    let plan_txt = plan.map(|(k, n)| format!("{} #{}", fault::KIND_NAMES[k as usize], n)).unwrap_or_else(|| "none (counting run)".into());
    let desc = json!({"workload": "panic", "value": "Option<Tp>", "strategy": S::NAME, "exec_no": cfg.exec_no, "wseed": cfg.wseed, "sseed": cfg.sseed,
        "mode": format!("{:?}", cfg.mode), "threads": nt, "containers": nc, "sched": format!("{:?}", strat), "fault_plan": plan_txt});
    runner::set_current(desc.clone());
    runner::HOLD_VIOLATIONS.store(plan.is_some(), SeqCst);
    let caught = Arc::new(AtomicU64::new(0));
    match plan {
        Some((k, n)) => fault::arm(k, n),
        None => fault::arm(0, 0),
    }
    let mut handles = Vec::new();
    for t in 0..nt {
        let conts2: Vec<Cont<V, S>> = conts.to_vec();
        let sh2 = sh.clone();
        let seed = rng.next();
        let nops = rng.range(8, 16) as usize;
        let caught2 = caught.clone();
        let body = move || {
            let mut w = Worker::<V, S> {
                t,
                rng: Rng::new(seed),
                conts: conts2,
                sh: sh2.clone(),
                guards: Vec::new(),
                owned: Vec::new(),
                seen_addrs: Vec::new(),
                next_id: id_block(),
                res: RefCell::new(WorkerResult { t, ..Default::default() }),
                last_path: std::cell::Cell::new(0),
                budgets: std::cell::Cell::new((100_000, 100_000)),
                last_steps: std::cell::Cell::new(0),
                caches: Vec::new(),
                pending: RefCell::new(None),
            };
            for _ in 0..nops {
                let pick = w.rng.below(16);
                let r = std::panic::catch_unwind(std::panic::AssertUnwindSafe(|| {
                    if pick < 2 {
                        fault::CURRENT_OP.with(|c| c.set(W::Rcu as u8));
                        rcu_into(&mut w);
                    } else if pick < 4 {
                        w.do_op(W::CacheLoad);
                    } else {
                        let op = ALLW[w.rng.weighted(&MIX)];
                        w.do_op(op);
                    }
                }));
                if let Err(e) = r {
                    if e.downcast_ref::<runner::InjectedPanic>().is_none() {
                        // not ours: a real panic (the hook has already attributed it)
                        std::panic::resume_unwind(e);
                    }
                    caught2.fetch_add(1, SeqCst);
                    w.after_panic();
                }
                sched::step(hs::OP_GAP);
            }
            // the fault window is the main phase; tear-down runs without injection
            fault::disarm();
            end_phase(w, &sh2);
        };
        handles.push(spawn_worker(t, seed, body));
    }
    drop(conts);
    if cfg.mode == Mode::Token {
        sched::token_start();
    }
    let mut all_ok = true;
    for h in handles {
        if !matches!(h.join(), Ok(true)) {
            all_ok = false;
        }
    }
    fault::disarm();
    let counts = fault::counts();
    let inj = fault::injection();
    let left = std::mem::take(&mut *sh.mailbox.lock().unwrap());
    for h in left {
        drop(crate::wl_core::release(h));
    }
    let (trace_hash, steps) = if cfg.mode == Mode::Token {
        let inn = unsafe { sched::inner() };
        (inn.trace_hash, inn.nsteps)
    } else {
        (cfg.wseed, 0)
    };
    let out = analyze::<V, S>(p, &desc, &sh, all_ok, init_ids, addr_of, nt, nc, if cfg.mode == Mode::Off { Mode::Free } else { cfg.mode }, cfg.record, viol_before, trace_hash, steps);
    runner::HOLD_VIOLATIONS.store(false, SeqCst);
    if plan.is_some() {
        let raw = pass_through(crate::viol::take(), &desc);
        if !raw.is_empty() {
            let (ctx, ctx_json) = match &inj {
                Some(i) => (
                    format!(
                        "injected {} panic in operation {} (inside a writer's debt walk: {})",
                        fault::KIND_NAMES[i.kind as usize],
                        op_name(i.op),
                        if i.in_payall { "yes" } else { "no" }
                    ),
                    json!({"kind": fault::KIND_NAMES[i.kind as usize], "nth": i.nth, "operation": op_name(i.op), "inside_debt_walk": i.in_payall, "thread": i.thread}),
                ),
                None => ("no panic was injected (the plan was not reached)".to_string(), json!(null)),
            };
            let mut tokens: BTreeMap<String, u64> = BTreeMap::new();
            for v in raw.iter() {
                *tokens.entry(normalise(&v.prop, &v.kind, &v.detail)).or_insert(0) += 1;
            }
            let toks: Vec<String> = tokens.iter().map(|(k, n)| format!("{} x{}", k, n)).collect();
            let mut d = desc.clone();
            d["injection"] = ctx_json;
            d["raw_reports"] = json!(raw.iter().map(|v| format!("{} {}: {}", v.prop, v.kind, v.detail)).collect::<Vec<_>>());
            runner::violation("C18", "post-panic-discrepancy", format!("{}; afterwards: {}", ctx, toks.join(", ")), &d);
        }
    }
    PanicOut { out, counts, injected: inj.is_some(), caught: caught.load(SeqCst) }
}

/// Reports that have nothing to do with the injected panic (the address-reuse mechanism D5, which
/// has its own precise kind) are reported as they are; the rest is folded by the caller.
fn pass_through(raw: Vec<crate::viol::Violation>, desc: &serde_json::Value) -> Vec<crate::viol::Violation> {
    let mut rest = Vec::new();
    for v in raw {
        if v.kind == "prepaid-stale-debt-foreign-value" {
            runner::violation(&v.prop, &v.kind, v.detail.clone(), desc);
        } else {
            rest.push(v);
        }
    }
    rest
}

fn op_name(op: u8) -> String {
    if (op as usize) < ALLW.len() {
        format!("{:?}", ALLW[op as usize])
    } else if op == W::CacheLoad as u8 {
        "CacheLoad".to_string()
    } else {
        "tear-down".to_string()
    }
}

/// Reduce a monitor report to a stable token (no ids, no addresses).
fn normalise(prop: &str, kind: &str, detail: &str) -> String {
    match (prop, kind) {
        ("C02", "leak") => "value never destroyed".to_string(),
        ("C02", "count-conservation") => {
            // "value X: strong S + debt slots D != containers C + owned handles O + guards G (..)"
            let nums: Vec<i64> = detail.split(|c: char| !c.is_ascii_digit()).filter(|s| !s.is_empty()).filter_map(|s| s.parse().ok()).collect();
            let n = nums.len();
            if n >= 5 {
                let (s, d, c, o, g) = (nums[n - 5], nums[n - 4], nums[n - 3], nums[n - 2], nums[n - 1]);
                if s + d > c + o + g {
                    format!("count surplus of {}", s + d - c - o - g)
                } else {
                    format!("count deficit of {}", c + o + g - s - d)
                }
            } else {
                "count mismatch".to_string()
            }
        }
        ("C02", "node-not-quiescent") => {
            if detail.contains("debt slot still holds") {
                "debt slot occupied".to_string()
            } else if detail.contains("control word") {
                "control word not idle".to_string()
            } else if detail.contains("active writers") {
                "writer count stuck".to_string()
            } else {
                "node not quiescent".to_string()
            }
        }
        ("C02", "slot-without-guard") => "debt slot occupied without a guard".to_string(),
        _ => format!("{} {}", prop, kind),
    }
}

// ---- projections and Constant's clone (Access machinery)

#[derive(Debug)]
struct Cfg2 {
    id: u64,
    inner: Inner2,
}
#[derive(Debug)]
struct Inner2 {
    id: u64,
}
struct Cl(u64);
impl Clone for Cl {
    fn clone(&self) -> Self {
        fault::hit(fault::K_CLONE);
        Cl(self.0)
    }
}

/// Panics in projection functions and in `Constant`'s clone: nothing may change. Returns the
/// number of plans run.
pub fn access_scenarios(seed: u64) -> u64 {
    use arc_swap::access::{Access, Constant, Map};
    let mut plans = 0;
    for n in 1..=3u64 {
        let a = Arc::new(Cfg2 { id: seed, inner: Inner2 { id: seed } });
        let c = arc_swap::ArcSwap::new(a.clone());
        let m = Map::new(&c, |r: &Cfg2| {
            fault::hit(fault::K_PROJECTION);
            &r.inner
        });
        fault::arm(fault::K_PROJECTION, n);
        let g = Access::load(&m);
        let mut seen = 0;
        let mut panicked = false;
        for _ in 0..4 {
            match std::panic::catch_unwind(std::panic::AssertUnwindSafe(|| g.id)) {
                Ok(id) => {
                    seen += 1;
                    if id != seed {
                        runner::violation("C18", "projection-after-panic", format!("projection shows {:x} instead of {:x} after a panic in the projection", id, seed), &json!({"workload": "panic/access", "n": n}));
                    }
                }
                Err(_) => panicked = true,
            }
        }
        fault::disarm();
        drop(g);
        let ok = panicked && seen == 3 && Arc::strong_count(&a) == 2 && c.load().id == seed;
        if !ok {
            runner::violation(
                "C18",
                "projection-panic",
                format!("after a panic in the {}-th projection call: panicked={} good derefs={} strong count={} (expected 2)", n, panicked, seen, Arc::strong_count(&a)),
                &json!({"workload": "panic/access", "n": n}),
            );
        }
        drop(c);
        if Arc::strong_count(&a) != 1 {
            runner::violation("C18", "projection-panic", format!("{} references left after dropping the container", Arc::strong_count(&a)), &json!({"workload": "panic/access", "n": n}));
        }
        plans += 1;
    }
    for n in 1..=2u64 {
        let k = Constant(Cl(seed));
        fault::arm(fault::K_CLONE, n);
        let mut oks = 0;
        let mut panics = 0;
        for _ in 0..3 {
            match std::panic::catch_unwind(std::panic::AssertUnwindSafe(|| Access::load(&k).0)) {
                Ok(v) => {
                    oks += 1;
                    if v != seed {
                        runner::violation("C18", "constant-after-panic", format!("Constant yields {:x} instead of {:x}", v, seed), &json!({"workload": "panic/access"}));
                    }
                }
                Err(_) => panics += 1,
            }
        }
        fault::disarm();
        if panics != 1 || oks != 2 {
            runner::violation("C18", "constant-clone-panic", format!("Constant: {} panics, {} good loads (expected 1 and 2)", panics, oks), &json!({"workload": "panic/access"}));
        }
        plans += 1;
    }
    plans
}

// ---- directed scenario: a helper's rejected replacement dies inside the writer's debt walk

/// Three threads on one fallback-only container: reader R parks inside its read-intent window;
/// writer W1 swaps and, helping R, loads its replacement (its own new value) and parks right before
/// offering it; writer W2 swaps (taking W1's value out and dropping it) and helps R successfully;
/// W1 resumes, its hand-over fails and the replacement - by now the last reference - is destroyed
/// inside W1's debt walk. With `plan`, that destructor panics.
pub fn directed_destructor_in_debt_walk(plan: Option<(u8, u64)>, exec_no: u64, w1op: W) -> PanicOut {
    directed_destructor_in_debt_walk_s::<arc_swap::strategy::test_strategies::FillFastSlots>(plan, exec_no, 0, w1op)
}

/// The same scenario on the default strategy: the reader first takes `hold` = 8 guards (fast slots
/// full, so its next load goes through the helping slot); those guards are unpaid debts on the value
/// the first writer removes, in the very node whose help() call runs the panicking destructor
/// (third-round seeds C18p / C18q: what the unwinding releases must not be owed to them).
pub fn directed_destructor_in_debt_walk_default(plan: Option<(u8, u64)>, exec_no: u64, w1op: W) -> PanicOut {
    directed_destructor_in_debt_walk_s::<arc_swap::DefaultStrategy>(plan, exec_no, 8, w1op)
}

/// `w1op`: the write operation of the first writer (the one whose debt walk runs the destructor):
/// swap, compare_and_swap or rcu (third-round seed C18q: the success path of compare_and_swap).
fn directed_destructor_in_debt_walk_s<S: StratExt<V>>(plan: Option<(u8, u64)>, exec_no: u64, hold: usize, w1op: W) -> PanicOut
where
    arc_swap::Guard<V, S>: Send,
{
    use arc_swap::verif::Site;
    let p = crate::wl_core::profile("c01");
    let nt = 3;
    let viol_before = crate::viol::count();
    let v0 = V::fresh(id_block() + 1);
    let init_ids = vec![v0.vid()];
    let mut addr_of: HashMap<u64, u64> = HashMap::new();
    addr_of.insert(v0.vid(), v0.addr() as u64);
    let conts: Vec<Cont<V, S>> = vec![Arc::new(ArcSwapAny::<V, S>::new(v0))];
    let sh = Arc::new(Shared::<V, S> {
        clock: AtomicU64::new(1),
        mailbox: Mutex::new(Vec::new()),
        b1: HBarrier::new(nt),
        b2: HBarrier::new(nt),
        results: Mutex::new(Vec::new()),
        fin: Mutex::new(Vec::new()),
        q1_done: AtomicBool::new(false),
        stop: AtomicBool::new(false),
        profile: {
            let mut p2 = p.clone();
            p2.none_p = 0;
            p2
        },
        exec_no,
        step_budget: 100_000,
    });
    sched::token_prepare(nt, exec_no, Strat::Script, false);
    sched::set_script(vec![
        (0, Site::FALLBACK_LOAD as u16),   // R: generation published, storage not read yet
        (1, Site::HELP_SPACE_LOAD as u16), // W1: swapped, replacement loaded, about to offer it
        (2, hs::OP_GAP),                   // W2: a whole swap (helps R successfully), drops what it got
        (1, hs::OP_GAP),                   // W1: hand-over fails, replacement dropped inside the walk
        (0, hs::OP_GAP),
    ]);
    let desc = json!({"workload": "panic/directed", "scenario": "rejected replacement destroyed inside the debt walk", "strategy": <S as StratExt<V>>::NAME, "reader_holds_guards": hold, "first_writer": format!("{:?}", w1op), "exec_no": exec_no,
        "fault_plan": plan.map(|(k, n)| format!("{} #{}", fault::KIND_NAMES[k as usize], n)).unwrap_or_else(|| "none (counting run)".into())});
    runner::set_current(desc.clone());
    runner::HOLD_VIOLATIONS.store(plan.is_some(), SeqCst);
    match plan {
        Some((k, n)) => fault::arm(k, n),
        None => fault::arm(0, 0),
    }
    let caught = Arc::new(AtomicU64::new(0));
    let mut handles = Vec::new();
    for t in 0..nt {
        let conts2: Vec<Cont<V, S>> = conts.to_vec();
        let sh2 = sh.clone();
        let caught2 = caught.clone();
        handles.push(spawn_worker(t, 1000 + t as u64, move || {
            let mut w = Worker::<V, S> {
                t,
                rng: Rng::new(77 + t as u64),
                conts: conts2,
                sh: sh2.clone(),
                guards: Vec::new(),
                owned: Vec::new(),
                seen_addrs: Vec::new(),
                next_id: id_block(),
                res: RefCell::new(WorkerResult { t, ..Default::default() }),
                last_path: std::cell::Cell::new(0),
                budgets: std::cell::Cell::new((100_000, 100_000)),
                last_steps: std::cell::Cell::new(0),
                caches: Vec::new(),
                pending: RefCell::new(None),
            };
            let mut opv: Vec<W> = Vec::new();
            if t == 0 {
                opv.extend(std::iter::repeat(W::Load).take(hold));
                opv.extend([W::LoadDrop, W::LoadDrop]);
            } else {
                opv.extend([if t == 1 { w1op } else { W::Swap }, W::DropOwned, W::DropOwned, W::LoadDrop]);
            }
            for op in opv.iter() {
                let r = std::panic::catch_unwind(std::panic::AssertUnwindSafe(|| w.do_op(*op)));
                if let Err(e) = r {
                    if e.downcast_ref::<runner::InjectedPanic>().is_none() {
                        std::panic::resume_unwind(e);
                    }
                    caught2.fetch_add(1, SeqCst);
                    w.after_panic();
                }
                // the writers must not keep what their swap returned
                while let Some(o) = w.owned.pop() {
                    let r = std::panic::catch_unwind(std::panic::AssertUnwindSafe(|| drop(crate::wl_core::disown(o))));
                    if r.is_err() {
                        caught2.fetch_add(1, SeqCst);
                    }
                }
                sched::step(hs::OP_GAP);
            }
            fault::disarm();
            end_phase(w, &sh2);
        }));
    }
    drop(conts);
    sched::token_start();
    let mut all_ok = true;
    for h in handles {
        if !matches!(h.join(), Ok(true)) {
            all_ok = false;
        }
    }
    fault::disarm();
    let counts = fault::counts();
    let inj = fault::injection();
    if sched::script_completed() {
        runner::count("panic.directed.script_completed", 1);
    }
    let inn = unsafe { sched::inner() };
    let (trace_hash, steps) = (inn.trace_hash, inn.nsteps);
    let out = analyze::<V, S>(&p, &desc, &sh, all_ok, init_ids, addr_of, nt, 1, Mode::Token, false, viol_before, trace_hash, steps);
    runner::HOLD_VIOLATIONS.store(false, SeqCst);
    if plan.is_some() {
        let raw = pass_through(crate::viol::take(), &desc);
        if !raw.is_empty() {
            let ctx = match &inj {
                Some(i) => format!(
                    "injected {} panic in operation {} (inside a writer's debt walk: {})",
                    fault::KIND_NAMES[i.kind as usize],
                    op_name(i.op),
                    if i.in_payall { "yes" } else { "no" }
                ),
                None => "no panic was injected (the plan was not reached)".to_string(),
            };
            let mut tokens: BTreeMap<String, u64> = BTreeMap::new();
            for v in raw.iter() {
                *tokens.entry(normalise(&v.prop, &v.kind, &v.detail)).or_insert(0) += 1;
            }
            let toks: Vec<String> = tokens.iter().map(|(k, n)| format!("{} x{}", k, n)).collect();
            let mut d = desc.clone();
            d["raw_reports"] = json!(raw.iter().map(|v| format!("{} {}: {}", v.prop, v.kind, v.detail)).collect::<Vec<_>>());
            runner::violation("C18", "post-panic-discrepancy", format!("{}; afterwards: {}", ctx, toks.join(", ")), &d);
        }
    }
    PanicOut { out, counts, injected: inj.is_some(), caught: caught.load(SeqCst) }
}
