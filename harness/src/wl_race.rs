//! Race-hunting workload for ThreadSanitizer and Miri (C07, and C01/C02/C10 as far as these tools
//! decide them). The harness is *hb-silent* here: while the workload runs the worker threads share
//! nothing but the containers under test – no locks, channels, stamps or shared logs; only `spawn`
//! before and `join` after. Values are `Tp` in real-allocation mode (plain payload written before
//! publication, read through every handle, overwritten by the destructor, freed for real; the
//! count is decremented with AcqRel and no fence) or std `Arc`.

use std::collections::BTreeMap;
use std::sync::Arc;

use arc_swap::{ArcSwapAny, Guard};

use crate::exec::StratExt;
use crate::runner;
use crate::sched::{self, hs};
use crate::tp::Val;
use crate::util::Rng;

#[derive(Clone, Debug)]
pub struct RaceCfg {
    pub readers: usize,
    pub writers: usize,
    pub ops: usize,
    pub hold: usize,
    pub seed: u64,
    pub handoff: bool,
    pub conts: usize,
}

#[derive(Default)]
struct Local {
    reads: u64,
    loads: u64,
    writes: u64,
    marks: BTreeMap<&'static str, u64>,
}

fn note_marks(l: &mut Local) {
    use arc_swap::verif::Site as St;
    let m = sched::take_marks();
    let has = |s: St| m & (1u128 << (s as u16)) != 0;
    let mut bump = |k: &'static str| *l.marks.entry(k).or_insert(0) += 1;
    if has(St::ATTEMPT_CONFIRMED) {
        bump("load.fast_confirmed");
    }
    if has(St::ATTEMPT_RETURNED) {
        bump("load.fast_changed_debt_returned");
    }
    if has(St::ATTEMPT_PREPAID) {
        bump("load.fast_changed_prepaid");
    }
    if has(St::FALLBACK_CONFIRMED) {
        bump("load.fallback_confirmed");
    }
    if has(St::FALLBACK_HELPED) {
        bump("load.fallback_helped");
    }
    if has(St::HELP_CAS_OK) {
        bump("write.helped_reader");
    }
    if has(St::HELP_CAS_LOST) {
        bump("write.help_lost_race");
    }
}

/// Dereference through a handle: the plain payload read that must be ordered after the
/// initialising write and before the destructor's write.
#[inline]
fn touch<V: Val>(v: &V, l: &mut Local) {
    let _ = v.vid();
    l.reads += 1;
}

pub fn run<V: Val, S: StratExt<V>>(cfg: &RaceCfg) -> (u64, u64)
where
    Guard<V, S>: Send,
{
    let conts: Vec<Arc<ArcSwapAny<V, S>>> = (0..cfg.conts).map(|c| Arc::new(ArcSwapAny::<V, S>::new(V::fresh(1000 + c as u64)))).collect();
    let mut handles = Vec::new();
    let mut rng = Rng::new(cfg.seed);
    for r in 0..cfg.readers {
        let conts = conts.clone();
        let cfg = cfg.clone();
        let tseed = rng.next();
        handles.push(std::thread::spawn(move || {
            sched::seed_thread_rng(tseed);
            sched::set_tid(r);
            let mut rng = Rng::new(tseed);
            let mut l = Local::default();
            let mut held: Vec<Guard<V, S>> = Vec::new();
            let mut children = Vec::new();
            for i in 0..cfg.ops {
                let c = &conts[rng.below(conts.len() as u64) as usize];
                sched::take_marks();
                match rng.below(4) {
                    0 => {
                        // full load: owned handle
                        let v = c.load_full();
                        note_marks(&mut l);
                        touch(&v, &mut l);
                        sched::step(hs::OP_GAP);
                        touch(&v, &mut l);
                        drop(v);
                    }
                    1 if cfg.handoff && i % 3 == 0 => {
                        // the guard travels to another thread and is used and dropped there
                        let g = c.load();
                        note_marks(&mut l);
                        touch(&*g, &mut l);
                        children.push(std::thread::spawn(move || {
                            let _ = g.vid();
                            drop(g);
                        }));
                    }
                    _ => {
                        let g = c.load();
                        note_marks(&mut l);
                        touch(&*g, &mut l);
                        if held.len() < cfg.hold {
                            held.push(g);
                        } else {
                            // short-lived guard: its give-back races with the writer's walk
                            sched::step(hs::OP_GAP);
                            touch(&*g, &mut l);
                            drop(g);
                            if !held.is_empty() && rng.chance(1, 3) {
                                let k = rng.below(held.len() as u64) as usize;
                                let g = held.swap_remove(k);
                                touch(&*g, &mut l);
                                drop(g);
                            }
                        }
                    }
                }
                l.loads += 1;
            }
            for g in held.drain(..) {
                touch(&*g, &mut l);
                drop(g);
            }
            for ch in children {
                let _ = ch.join();
            }
            sched::flush_thread_stats();
            l
        }));
    }
    for w in 0..cfg.writers {
        let conts = conts.clone();
        let cfg = cfg.clone();
        let tseed = rng.next();
        handles.push(std::thread::spawn(move || {
            sched::seed_thread_rng(tseed);
            sched::set_tid(cfg.readers + w);
            let mut rng = Rng::new(tseed);
            let mut l = Local::default();
            for i in 0..cfg.ops {
                let c = &conts[rng.below(conts.len() as u64) as usize];
                // The initialising write to the plain payload happens inside `fresh`, before the
                // value is published by the store below.
                let v = V::fresh(((w as u64 + 1) << 32) | i as u64 + 1);
                sched::take_marks();
                match rng.below(6) {
                    0 | 1 => {
                        let old = c.swap(v);
                        touch(&old, &mut l); // previous value returned by a write operation
                        sched::step(hs::OP_GAP);
                        drop(old); // possibly the last reference: destructor + free
                    }
                    2 => c.store(v),
                    3 => {
                        let cur = c.load();
                        touch(&*cur, &mut l);
                        let prev = c.compare_and_swap(&*cur, v);
                        touch(&*prev, &mut l);
                        drop(cur);
                        drop(prev);
                    }
                    4 => {
                        let prev = c.rcu(|cur: &V| {
                            let _ = cur.vid();
                            V::fresh(((w as u64 + 1) << 32) | 0x8000_0000 | i as u64)
                        });
                        drop(v);
                        touch(&prev, &mut l);
                        drop(prev);
                    }
                    _ => {
                        let old = c.swap(v);
                        // hand the previous value to another thread which drops it
                        let h = std::thread::spawn(move || {
                            let _ = old.vid();
                            drop(old);
                        });
                        let _ = h.join();
                    }
                }
                note_marks(&mut l);
                l.writes += 1;
            }
            sched::flush_thread_stats();
            l
        }));
    }
    let mut loads = 0;
    let mut reads = 0;
    for h in handles {
        match h.join() {
            Ok(l) => {
                loads += l.loads;
                reads += l.reads;
                runner::count("race.writes", l.writes);
                for (k, v) in l.marks {
                    runner::count(k, v);
                }
            }
            Err(_) => runner::count("race.thread_panicked", 1),
        }
    }
    // Consume the containers: the last values are released here (into_inner / drop).
    for (i, c) in conts.into_iter().enumerate() {
        if let Ok(c) = Arc::try_unwrap(c) {
            if i % 2 == 0 {
                let v = c.into_inner();
                let _ = v.vid();
                drop(v);
            } else {
                drop(c);
            }
        }
    }
    runner::count("race.loads", loads);
    runner::count("race.payload_reads_through_handles", reads);
    (loads, reads)
}

/// Minimal stale-read hunt for Miri: one writer performs a few writes and drops what it replaced,
/// one reader performs a few loads and reads through what it got; nothing but the container orders
/// the two threads, so any load whose ordering is too weak may return a stale pointer (the stale-prone
/// schedule is "the writer finishes, then the reader starts", which Miri produces most of the time
/// with a low preemption rate). Run without the step hook: every extra atomic access dilutes the
/// chance of a stale read (measured: 28 % of seeds without the hooks feature, 6 % with the hook
/// compiled in but not installed, 0.5 % with the FREE handler active, for seeded change C01b).
/// `variant` selects strategy / read flavour / write flavour.
pub fn minimal<V: Val, S: StratExt<V>>(variant: u64, loads: usize, stores: usize) -> u64
where
    Guard<V, S>: Send,
{
    let shared = Arc::new(ArcSwapAny::<V, S>::new(V::fresh(1)));
    let read_flavour = variant % 3;
    let write_flavour = (variant / 3) % 3;
    let writer = {
        let shared = Arc::clone(&shared);
        std::thread::spawn(move || {
            for i in 0..stores {
                let v = V::fresh(100 + i as u64);
                match write_flavour {
                    0 => shared.store(v),
                    1 => {
                        let old = shared.swap(v);
                        let _ = old.vid();
                        drop(old);
                    }
                    _ => {
                        let mut v = Some(v);
                        let old = shared.rcu(|_cur: &V| v.take().unwrap_or_else(|| V::fresh(900 + i as u64)));
                        drop(old);
                    }
                }
            }
        })
    };
    let reader = {
        let shared = Arc::clone(&shared);
        std::thread::spawn(move || {
            let mut sum = 0u64;
            let mut held = Vec::new();
            if read_flavour == 2 {
                // more guards than fast slots: the loads below take the slow path on the default strategy
                for _ in 0..9 {
                    held.push(shared.load());
                }
            }
            for _ in 0..loads {
                if read_flavour == 1 {
                    let v = shared.load_full();
                    sum += v.vid();
                } else {
                    let g = shared.load();
                    sum += g.vid();
                }
            }
            for g in held {
                sum += g.vid();
            }
            sum
        })
    };
    writer.join().unwrap();
    let r = reader.join().unwrap();
    if let Ok(c) = Arc::try_unwrap(shared) {
        drop(c.into_inner());
    }
    r
}

/// Node hand-over between threads with nothing but the crate's own synchronisation (second-round
/// seed C10y: the swap that puts an exiting thread's node into cooldown weakened to `Relaxed`).
/// One round: thread A (fresh) loads a guard - a debt in a fast slot of its node - returns the guard
/// to the controlling thread as its result and exits; thread C, started *before* A and told about
/// A's exit only through a relaxed flag set from a thread-local destructor that runs after the
/// crate's own, then uses the crate for the first time and adopts a node (A's, if it sees it
/// released). It must find A's slot still occupied. Nothing is stored, so the value's count must stay
/// at 2 (container + the controlling thread's handle) while the guard lives and after it is dropped.
/// Hook-less; meant for Miri (the stale view of the slot needs its store-buffer emulation).
pub fn node_reuse<V: Val, S: StratExt<V>>(rounds: usize) -> u64
where
    Guard<V, S>: Send,
{
    use std::cell::Cell;
    use std::sync::atomic::{AtomicUsize, Ordering::Relaxed};
    static A_GONE: AtomicUsize = AtomicUsize::new(0);
    static EPOCH: AtomicUsize = AtomicUsize::new(0);
    struct Sentinel(Cell<usize>);
    impl Drop for Sentinel {
        fn drop(&mut self) {
            // Relaxed: must not create a happens-before edge from A to C.
            A_GONE.store(self.0.get(), Relaxed);
        }
    }
    thread_local! {
        static SENTINEL: Sentinel = Sentinel(Cell::new(0));
    }
    let base = EPOCH.fetch_add(rounds + 1, Relaxed) + 1;
    let p = V::fresh(4242);
    let shared = Arc::new(ArcSwapAny::<V, S>::new(p.clone()));
    let mut reused = 0u64;
    for round in 0..rounds {
        let tag = base + round;
        let c = {
            let shared = Arc::clone(&shared);
            std::thread::spawn(move || {
                let mut spins = 0u64;
                while A_GONE.load(Relaxed) != tag {
                    spins += 1;
                    if spins > 20_000_000 {
                        return None;
                    }
                    std::thread::yield_now();
                }
                // the very first use of the crate in this thread: adopts a node
                let g2 = shared.load();
                let node = arc_swap::verif::thread_node();
                let _ = g2.vid();
                drop(g2);
                node
            })
        };
        let a = {
            let shared = Arc::clone(&shared);
            std::thread::spawn(move || {
                // touched before the crate's thread-local: destroyed after it
                SENTINEL.with(|s| s.0.set(tag));
                let g = shared.load();
                let node = arc_swap::verif::thread_node();
                (g, node)
            })
        };
        let (g, a_node) = match a.join() {
            Ok(x) => x,
            Err(_) => {
                runner::count("race.thread_panicked", 1);
                break;
            }
        };
        let c_node = match c.join() {
            Ok(n) => n,
            Err(_) => {
                runner::count("race.thread_panicked", 1);
                std::mem::forget(g);
                break;
            }
        };
        if a_node.is_some() && a_node == c_node {
            reused += 1;
        }
        let _ = g.vid();
        let before = p.strong();
        drop(g);
        let after = p.strong();
        // a guard from the slow path owns a reference of its own (3 while it lives), one from the fast path is a mere debt (2)
        if after != 2 || !(before == 2 || before == 3) {
            crate::viol::report(
                "C10",
                "guard-released-what-it-did-not-hold",
                format!(
                    "node hand-over round {}: nothing was stored, yet the value's count was {} while a guard that outlived its thread existed and {} after dropping it (expected 2 or 3, then 2: container + one handle); the thread that adopted the node {} the same node",
                    round, before, after, if a_node == c_node { "got" } else { "did not get" }
                ),
            );
            // do not make it worse: the container would release a reference it may no longer have
            std::mem::forget(shared);
            std::mem::forget(p);
            runner::count("race.node_reuse.adopted_same_node", reused);
            return reused;
        }
    }
    runner::count("race.node_reuse.rounds", rounds as u64);
    runner::count("race.node_reuse.adopted_same_node", reused);
    if let Ok(c) = Arc::try_unwrap(shared) {
        drop(c.into_inner());
    }
    drop(p);
    reused
}
