//! Running one execution: spawn participants, TLS exit guard (keeps the crate's thread-local
//! destructor under the token and lets a workload run operations after the crate's TLS is gone),
//! harness barrier, strategy plumbing.

use std::cell::{Cell, RefCell};
use std::sync::atomic::Ordering::*;
use std::sync::atomic::{AtomicBool, AtomicUsize};
use std::sync::Arc;

use arc_swap::strategy::test_strategies::FillFastSlots;
use arc_swap::strategy::{CaS, Strategy};
use arc_swap::{ArcSwapAny, DefaultStrategy, Guard};

use crate::sched::{self, Mode};
use crate::tp::Val;

type Tail = Box<dyn FnOnce() + Send + 'static>;

struct ExitGuard {
    armed: Cell<bool>,
    tail: RefCell<Option<Tail>>,
}

impl Drop for ExitGuard {
    fn drop(&mut self) {
        // Registered before the crate's thread-local, therefore destroyed after it: operations
        // made from `tail` run with the crate's TLS already gone.
        if let Some(f) = self.tail.borrow_mut().take() {
            let _ = std::panic::catch_unwind(std::panic::AssertUnwindSafe(f));
        }
        if self.armed.get() {
            sched::step(sched::hs::THREAD_EXIT);
            sched::token_finish();
        }
    }
}

thread_local! {
    static EXIT: ExitGuard = const { ExitGuard { armed: Cell::new(false), tail: RefCell::new(None) } };
}

/// Must be called on a worker thread before its first use of the crate.
pub fn arm_exit_guard() {
    EXIT.with(|e| e.armed.set(true));
}

/// Operations to run from the thread-local destructor phase, after the crate's TLS is gone.
pub fn set_exit_tail(f: Tail) {
    EXIT.with(|e| *e.tail.borrow_mut() = Some(f));
}

/// Spawn participant `t` running `body`. In TOKEN mode the thread waits for the token first and
/// releases it for good from its TLS exit guard.
pub fn spawn_worker<F>(t: usize, thread_seed: u64, body: F) -> std::thread::JoinHandle<bool>
where
    F: FnOnce() + Send + 'static,
{
    std::thread::Builder::new()
        .name(format!("w{}", t))
        .stack_size(1 << 20)
        .spawn(move || {
            arm_exit_guard();
            sched::seed_thread_rng(thread_seed);
            if sched::mode() == Mode::Token {
                sched::token_enter(t);
            } else {
                sched::set_tid(t);
            }
            sched::step(sched::hs::THREAD_START);
            let r = std::panic::catch_unwind(std::panic::AssertUnwindSafe(body));
            crate::runner::set_in_call(false);
            if r.is_err() {
                // A panic that escaped an operation (a crate panic is reported by the panic hook as
                // a C13 violation, a harness panic as a harness error). The other participants may
                // wait for this thread for ever, and the state is undefined: end the shard here.
                crate::runner::abort_after_panic();
            }
            r.is_ok()
        })
        .expect("spawn worker")
}

/// A barrier whose last arriver runs `leader` while everybody else is parked.
pub struct HBarrier {
    n: AtomicUsize,
    arrived: AtomicUsize,
    open: AtomicBool,
}

impl HBarrier {
    pub fn new(n: usize) -> Self {
        HBarrier { n: AtomicUsize::new(n), arrived: AtomicUsize::new(0), open: AtomicBool::new(false) }
    }

    /// A participant that will never arrive (its thread died).
    pub fn resign(&self, leader: impl FnOnce()) {
        let n = self.n.fetch_sub(1, SeqCst) - 1;
        if self.arrived.load(SeqCst) >= n && !self.open.load(SeqCst) {
            leader();
            self.open.store(true, SeqCst);
        }
    }

    pub fn wait(&self, leader: impl FnOnce()) {
        let k = self.arrived.fetch_add(1, SeqCst) + 1;
        if k >= self.n.load(SeqCst) {
            leader();
            self.open.store(true, SeqCst);
            return;
        }
        let mut spins = 0u32;
        while !self.open.load(SeqCst) {
            if sched::mode() == Mode::Token {
                sched::yield_blocked();
            } else {
                spins += 1;
                if spins > 50 {
                    std::thread::yield_now();
                } else {
                    std::hint::spin_loop();
                }
            }
        }
        sched::unblocked();
    }
}

/// What the workloads need from a strategy, including the compare-and-swap forms that exist only
/// for the default strategy.
pub trait StratExt<V: Val>: Strategy<V> + CaS<V> + Default + Send + Sync + 'static {
    const NAME: &'static str;
    const HAS_GUARD_FORMS: bool;
    fn cas_guard_ref(c: &ArcSwapAny<V, Self>, cur: &Guard<V, Self>, new: V) -> Guard<V, Self>;
    fn cas_guard_owned(c: &ArcSwapAny<V, Self>, cur: Guard<V, Self>, new: V) -> Guard<V, Self>;
}

impl<V: Val> StratExt<V> for DefaultStrategy {
    const NAME: &'static str = "default";
    const HAS_GUARD_FORMS: bool = true;
    fn cas_guard_ref(c: &ArcSwapAny<V, Self>, cur: &Guard<V, Self>, new: V) -> Guard<V, Self> {
        c.compare_and_swap(cur, new)
    }
    fn cas_guard_owned(c: &ArcSwapAny<V, Self>, cur: Guard<V, Self>, new: V) -> Guard<V, Self> {
        c.compare_and_swap(cur, new)
    }
}

#[allow(deprecated)]
impl<V: Val> StratExt<V> for FillFastSlots {
    const NAME: &'static str = "fallback-only";
    const HAS_GUARD_FORMS: bool = false;
    fn cas_guard_ref(c: &ArcSwapAny<V, Self>, cur: &Guard<V, Self>, new: V) -> Guard<V, Self> {
        c.compare_and_swap(&**cur, new)
    }
    fn cas_guard_owned(c: &ArcSwapAny<V, Self>, cur: Guard<V, Self>, new: V) -> Guard<V, Self> {
        c.compare_and_swap(&*cur, new)
    }
}

impl<V: Val> StratExt<V> for std::sync::RwLock<()> {
    const NAME: &'static str = "rwlock";
    const HAS_GUARD_FORMS: bool = false;
    fn cas_guard_ref(c: &ArcSwapAny<V, Self>, cur: &Guard<V, Self>, new: V) -> Guard<V, Self> {
        c.compare_and_swap(&**cur, new)
    }
    fn cas_guard_owned(c: &ArcSwapAny<V, Self>, cur: Guard<V, Self>, new: V) -> Guard<V, Self> {
        c.compare_and_swap(&*cur, new)
    }
}

pub type Cont<V, S> = Arc<ArcSwapAny<V, S>>;

/// Structural invariants of the debt node list at a quiescent point (nothing in flight).
/// `expect_empty`: no guard is alive either, so every slot must be empty.
/// Returns (number of nodes, occupied slots by address, problems).
pub fn node_invariants(expect_empty: bool) -> (usize, std::collections::HashMap<usize, usize>, Vec<String>) {
    let nodes = arc_swap::verif::nodes();
    let mut occ = std::collections::HashMap::new();
    let mut problems = Vec::new();
    for n in &nodes {
        if n.control != 0 {
            problems.push(format!("node {:#x}: control word {:#x} not idle at a quiescent point", n.addr, n.control));
        }
        if n.active_writers != 0 {
            problems.push(format!("node {:#x}: {} active writers at a quiescent point", n.addr, n.active_writers));
        }
        for s in n.fast.iter().chain(std::iter::once(&n.helping)) {
            if *s != arc_swap::verif::NO_DEBT {
                *occ.entry(*s).or_insert(0) += 1;
                if expect_empty {
                    problems.push(format!("node {:#x}: debt slot still holds {:#x} although no guard is alive", n.addr, s));
                }
            }
        }
    }
    // Hand-over envelopes: with no fallback transaction in flight every node owns exactly one
    // envelope, and the envelopes owned are a permutation of the ones embedded in the nodes (a
    // successful help swaps the writer's and the reader's, nothing else moves them).
    let embedded: std::collections::HashSet<usize> = nodes.iter().map(|n| n.own_envelope).collect();
    let mut owned = std::collections::HashMap::new();
    for n in &nodes {
        if !embedded.contains(&n.space_offer) {
            problems.push(format!("node {:#x}: its hand-over envelope {:#x} is not an envelope of any node", n.addr, n.space_offer));
        }
        if let Some(other) = owned.insert(n.space_offer, n.addr) {
            problems.push(format!("nodes {:#x} and {:#x} both own the hand-over envelope {:#x} at a quiescent point", other, n.addr, n.space_offer));
        }
    }
    (nodes.len(), occ, problems)
}
