//! Every way of reading through a `Cache` (C16; second-round seed C16y: the `Access` impl of a
//! plain `Cache` stopped revalidating). The core workload reads caches through the inherent
//! `Cache::load` and through `MapCache`; here the value type is a plain `Arc<Payload>`, for which the
//! crate also implements `cache::Access<T::Target>` on the plain `Cache`, and the caches are built in
//! every way the API offers (`Cache::new` over `&ArcSwap` and over `Arc<ArcSwap>`, `From`, `clone`,
//! `map`, generic use through the `Access` bound).
//!
//! Sequential part (reference model = a plain variable): after `store(v)` on the same thread every
//! cache read returns v; the cache keeps exactly one reference to exactly one value
//! (`Arc::strong_count` of the current and of the previous value). Concurrent part (free-running):
//! a writer stores increasing ids and publishes each completion through an atomic; readers read that
//! atomic (Acquire: the completion is handed over by synchronisation) and then the cache: the id
//! must be >= the published one and >= the previous result of the same cache.

use std::sync::atomic::Ordering::*;
use std::sync::atomic::{AtomicBool, AtomicU64};
use std::sync::Arc;

use arc_swap::cache::{Access as CacheAccess, Cache};
use arc_swap::ArcSwapAny;

use arc_swap::strategy::{CaS, Strategy};
use crate::tp::{Payload, Val};
use crate::util::Rng;
use crate::viol::report;

type T = Arc<Payload>;

fn fresh(id: u64) -> T {
    <Option<T> as Val>::fresh(id).unwrap()
}

fn pid(p: &Payload) -> u64 {
    let [x, y] = unsafe { std::ptr::read_volatile(p.cell.get()) };
    if x != !y {
        report("C01", "payload-corrupt", format!("payload ({:#x},{:#x}) read through a cache is corrupt", x, y));
    }
    x
}

/// Generic use through the trait bound, as the documentation of `cache::Access` suggests.
fn through_bound<A: CacheAccess<Payload>>(a: &mut A) -> u64 {
    pid(a.load())
}

fn through_bound_u64<A: CacheAccess<Vec<u64>>>(a: &mut A) -> u64 {
    a.load()[0]
}

pub const READS: [&str; 6] = ["inherent", "access-trait", "access-bound", "map", "map-bound", "clone-then-inherent"];

/// One sequential program; returns the number of cache reads checked.
pub fn sequential<S: Strategy<T> + CaS<T> + Default + Send + Sync + 'static>(seed: u64) -> u64 {
    let mut rng = Rng::new(seed);
    let shared = Arc::new(ArcSwapAny::<T, S>::new(fresh(1)));
    let mut model = 1u64;
    let mut next = 2u64;
    let mut plain_ref = Cache::new(&*shared);
    let mut plain_arc: Cache<Arc<ArcSwapAny<T, S>>, T> = Cache::from(Arc::clone(&shared));
    let mut mapped = Cache::new(Arc::clone(&shared)).map(|p: &T| &p.vec);
    let mut checked = 0;
    let mut prev_val: Option<T> = None;
    for step in 0..rng.range(20, 60) {
        if rng.chance(2, 5) {
            let v = fresh(next);
            model = next;
            next += 1;
            prev_val = Some(shared.load_full());
            match rng.below(3) {
                0 => shared.store(v),
                1 => drop(shared.swap(v)),
                _ => drop(shared.rcu(|_| Arc::clone(&v))),
            }
            continue;
        }
        let kind = rng.below(READS.len() as u64) as usize;
        crate::sched::op_begin_ext(100_000, 8, false);
        let got = match kind {
            0 => pid(plain_ref.load()),
            1 => pid(CacheAccess::<Payload>::load(&mut plain_arc)),
            2 => through_bound(&mut plain_ref),
            3 => CacheAccess::<Vec<u64>>::load(&mut mapped)[0],
            4 => through_bound_u64(&mut mapped),
            _ => {
                let mut cl = plain_arc.clone();
                let id = pid(cl.load());
                plain_arc = cl;
                id
            }
        };
        crate::sched::op_steps();
        checked += 1;
        crate::runner::count(&format!("cache.seq.read.{}", READS[kind]), 1);
        if got != model {
            report(
                "C16",
                "cache-stale-after-own-store",
                format!("sequential program (seed {}, step {}): a cache read through `{}` returned {} after store({}) had completed on the same thread", seed, step, READS[kind], got, model),
            );
            break;
        }
        // retained references: once all three caches have been read after the last store, the
        // previous value is owned by `prev_val` alone
        if let (Some(pv), true) = (&prev_val, rng.chance(1, 4)) {
            let all_fresh = pid(plain_ref.load()) == model && pid(plain_arc.load()) == model && CacheAccess::<Vec<u64>>::load(&mut mapped)[0] == model;
            if all_fresh && pid(pv) != model {
                let n = Arc::strong_count(pv);
                if n != 1 {
                    report("C16", "cache-retains-old-value", format!("sequential program (seed {}): after every cache was re-read the replaced value {} still has {} owners besides the test's own handle", seed, pid(pv), n - 1));
                    break;
                }
                let cur = shared.load_full();
                let n = Arc::strong_count(&cur);
                if n != 5 {
                    report("C16", "cache-count", format!("sequential program (seed {}): the current value has {} references, expected 5 (container, three caches, the test's handle)", seed, n));
                    break;
                }
            }
        }
    }
    drop(plain_ref);
    drop(plain_arc);
    drop(mapped);
    checked
}

/// Free-running concurrent part: `readers` threads, each with one cache per read flavour.
pub fn concurrent<S: Strategy<T> + CaS<T> + Default + Send + Sync + 'static>(seed: u64, stores: u64, readers: usize) -> u64 {
    let shared = Arc::new(ArcSwapAny::<T, S>::new(fresh(1)));
    let published = Arc::new(AtomicU64::new(1));
    let stop = Arc::new(AtomicBool::new(false));
    let mut hs = Vec::new();
    for r in 0..readers {
        let (shared, published, stop) = (shared.clone(), published.clone(), stop.clone());
        hs.push(std::thread::spawn(move || {
            let mut rng = Rng::new(seed ^ (r as u64 + 1) * 0x9E37);
            let mut plain: Cache<Arc<ArcSwapAny<T, S>>, T> = Cache::new(Arc::clone(&shared));
            let mut plain2 = plain.clone();
            let mut mapped = Cache::new(Arc::clone(&shared)).map(|p: &T| &p.vec);
            let mut last = [0u64; 3];
            let mut n = 0u64;
            while !stop.load(Relaxed) || n < 50 {
                let known = published.load(Acquire);
                let which = rng.below(3) as usize;
                // a cache read is a load: bounded number of own steps (a read that spins is reported by the step handler)
                crate::sched::op_begin_ext(100_000, 8, false);
                let got = match which {
                    0 => {
                        if rng.chance(1, 2) {
                            pid(plain.load())
                        } else {
                            through_bound(&mut plain)
                        }
                    }
                    1 => pid(CacheAccess::<Payload>::load(&mut plain2)),
                    _ => through_bound_u64(&mut mapped),
                };
                crate::sched::op_steps();
                n += 1;
                if got < known {
                    report("C16", "cache-older-than-completed-store", format!("concurrent part (seed {}): a cache read (flavour {}) returned {} although the completion of store({}) had been handed over before the call", seed, which, got, known));
                    break;
                }
                if got < last[which] {
                    report("C16", "cache-went-backwards", format!("concurrent part (seed {}): a cache read (flavour {}) returned {} after {}", seed, which, got, last[which]));
                    break;
                }
                last[which] = got;
                if n % 64 == 0 {
                    std::thread::yield_now();
                }
            }
            n
        }));
    }
    for i in 2..(2 + stores) {
        shared.store(fresh(i));
        published.store(i, Release);
        if i % 16 == 0 {
            std::thread::yield_now();
        }
    }
    stop.store(true, Relaxed);
    let mut total = 0;
    for h in hs {
        total += h.join().unwrap_or(0);
    }
    total
}
