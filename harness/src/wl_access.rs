//! Access / Map projections (C17). Pointees are nested structs whose every level carries the id of
//! the root it belongs to. A projection guard obtained through any chain of the Access machinery
//! (container, Map of any depth, through `&`, `Arc`, `Box<dyn DynAccess>`, `AccessConvert`,
//! `Constant`) must show one root id for its whole life – at creation, after interleaved stores, after
//! being moved, at drop –, must keep that root alive (drop flag; ASan / Miri for the memory), and a
//! load started after a completed store must project that store's value or a later one (the loads
//! are recorded as reads of the container and checked for linearizability). Static and dynamic
//! dispatch must agree; `Constant` yields its own value.

use std::collections::HashMap;
use std::sync::atomic::Ordering::*;
use std::sync::atomic::{AtomicBool, AtomicU64};
use std::sync::{Arc, Mutex};

use arc_swap::access::{Access, AccessConvert, Constant, DynAccess, Map};
use arc_swap::ArcSwapAny;
use serde_json::json;

use crate::exec::spawn_worker;
use crate::lin::{self, Kind, Op, Verdict};
use crate::runner;
use crate::sched::{self, hs, Mode, Strat};
use crate::util::Rng;
use crate::viol::report;

#[derive(Clone)]
pub struct Leaf {
    pub root: u64,
    pub tag: u64,
    pub text: String,
}

#[derive(Clone)]
pub struct Mid {
    pub root: u64,
    pub leaf: Leaf,
    pub shared: Arc<Leaf>,
    pub boxed: Box<Leaf>,
}

pub struct Root {
    pub id: u64,
    pub mid: Mid,
    dropped: Arc<AtomicBool>,
}

static FLAGS: Mutex<Option<HashMap<u64, Arc<AtomicBool>>>> = Mutex::new(None);
pub static ROOTS_LIVE: AtomicU64 = AtomicU64::new(0);

impl Drop for Root {
    fn drop(&mut self) {
        self.dropped.store(true, SeqCst);
        ROOTS_LIVE.fetch_sub(1, SeqCst);
        // poison the ids so that a dangling projection shows a different root
        self.id = !self.id;
        self.mid.root = !self.mid.root;
        self.mid.leaf.root = !self.mid.leaf.root;
    }
}

fn leaf(root: u64, tag: u64) -> Leaf {
    Leaf { root, tag, text: format!("leaf-of-{}", root) }
}

pub fn new_root(id: u64) -> Arc<Root> {
    let flag = Arc::new(AtomicBool::new(false));
    FLAGS.lock().unwrap().get_or_insert_with(HashMap::new).insert(id, flag.clone());
    ROOTS_LIVE.fetch_add(1, SeqCst);
    Arc::new(Root { id, mid: Mid { root: id, leaf: leaf(id, 1), shared: Arc::new(leaf(id, 2)), boxed: Box::new(leaf(id, 3)) }, dropped: flag })
}

fn is_dropped(id: u64) -> bool {
    FLAGS.lock().unwrap().as_ref().and_then(|m| m.get(&id)).map(|f| f.load(SeqCst)).unwrap_or(false)
}

impl AS for std::sync::RwLock<()> {
    const NAME: &'static str = "rwlock";
}

/// The strategies this workload runs under.
pub trait AS: arc_swap::strategy::Strategy<Arc<Root>> + Default + Send + Sync + 'static {
    const NAME: &'static str;
}
impl AS for arc_swap::DefaultStrategy {
    const NAME: &'static str = "default";
}
#[allow(deprecated)]
impl AS for arc_swap::strategy::test_strategies::FillFastSlots {
    const NAME: &'static str = "fallback-only";
}

type Cont<S> = Arc<ArcSwapAny<Arc<Root>, S>>;

/// A live projection guard, type-erased: the closure reads the root id through the guard.
pub struct View {
    read: Box<dyn Fn() -> u64>,
    root: u64,
    chain: &'static str,
    constant: bool,
}

fn view<G: 'static>(g: G, chain: &'static str, f: impl Fn(&G) -> u64 + 'static) -> View {
    let root = f(&g);
    // move the guard (into the box): a projection must not depend on where the guard lives
    let boxed = Box::new(g);
    View { read: Box::new(move || f(&boxed)), root, chain, constant: false }
}

pub const NCHAINS: u64 = 12;
const CHAIN_COUNTER: [&str; 12] = [
    "access.chain.00_load", "access.chain.01_direct_deref", "access.chain.02_through_arc", "access.chain.03_map1", "access.chain.04_map2", "access.chain.05_map3_inner_arc",
    "access.chain.06_map_ref_box", "access.chain.07_box_dyn", "access.chain.08_access_convert", "access.chain.09_arc_dyn", "access.chain.10_identity", "access.chain.11_constant",
];

/// Load through chain number `k`.
pub fn load_chain<S: AS>(c: &Cont<S>, k: u64) -> View {
    match k {
        0 => view(ArcSwapAny::load(&**c), "ArcSwapAny::load", |g| g.id),
        1 => view(<ArcSwapAny<Arc<Root>, S> as Access<Root>>::load(c), "Access<Root> for ArcSwapAny (direct deref)", |g| g.id),
        2 => view(<Cont<S> as Access<Arc<Root>>>::load(c), "Access through Arc<ArcSwapAny>", |g| g.id),
        3 => {
            let m = Map::new(c.clone(), |r: &Root| &r.mid);
            view(Access::load(&m), "Map depth 1 (static)", |g| g.root)
        }
        4 => {
            let m = Map::new(Map::new(c.clone(), |r: &Root| &r.mid), |m: &Mid| &m.leaf);
            view(Access::load(&m), "Map depth 2 (static)", |g| g.root)
        }
        5 => {
            let m = Map::new(Map::new(Map::new(c.clone(), |r: &Root| &r.mid), |m: &Mid| &m.shared), |l: &Arc<Leaf>| &l.text);
            let v = view(Access::load(&m), "Map depth 3 through an inner Arc to a String", |g| g.trim_start_matches("leaf-of-").parse::<u64>().unwrap_or(u64::MAX));
            v
        }
        6 => {
            let m = Map::new(&**c, |r: &Root| &*r.mid.boxed);
            view(Access::load(&m), "Map over &ArcSwapAny through a Box", |g| g.root)
        }
        7 => {
            let d: Box<dyn DynAccess<Mid>> = Box::new(Map::new(c.clone(), |r: &Root| &r.mid));
            view(DynAccess::load(&*d), "Box<dyn DynAccess> (dynamic)", |g| g.root)
        }
        8 => {
            let d: Box<dyn DynAccess<Mid>> = Box::new(Map::new(c.clone(), |r: &Root| &r.mid));
            let m = Map::new(AccessConvert(d), |m: &Mid| &m.leaf);
            view(Access::load(&m), "Map over AccessConvert(Box<dyn DynAccess>)", |g| g.root)
        }
        9 => {
            let d: Arc<dyn DynAccess<Root> + Send + Sync> = Arc::new(c.clone());
            view(DynAccess::load(&*d), "Arc<dyn DynAccess<Root>>", |g| g.id)
        }
        10 => {
            // identity-like projection: the projected place lives inside the guard itself
            let m = Map::new(c.clone(), |a: &Arc<Root>| a);
            view(Access::load(&m), "Map with identity projection on Arc<Root>", |g| g.id)
        }
        _ => {
            let k = Constant(Mid { root: 777, leaf: leaf(777, 1), shared: Arc::new(leaf(777, 2)), boxed: Box::new(leaf(777, 3)) });
            let m = Map::new(k, |m: &Mid| &m.leaf);
            let mut v = view(Access::load(&m), "Map over Constant", |g| g.root);
            v.constant = true;
            v
        }
    }
}

fn check_view(v: &View, when: &str) {
    let now = (v.read)();
    if now != v.root {
        report("C17", "projection-changed", format!("a guard from [{}] showed root {:x} at creation and {:x} {}", v.chain, v.root, now, when));
    }
    if v.constant {
        if now != 777 {
            report("C17", "constant", format!("Constant projected {:x} instead of its own value", now));
        }
    } else if is_dropped(v.root) {
        report("C17", "snapshot-dropped", format!("root {:x} was destroyed while a guard from [{}] still projects it ({})", v.root, v.chain, when));
    }
}

pub struct AccOut {
    pub ops: usize,
    pub trace_hash: u64,
}

/// One execution: `nw` writers store fresh roots, `nr` readers load through random chains and hold
/// the guards across stores.
pub fn run_exec<S: AS>(seed: u64, sseed: u64, mode: Mode, exec_no: u64) -> AccOut {
    let mut rng = Rng::new(seed);
    let nr = rng.range(1, 3) as usize;
    let nw = rng.range(1, 2) as usize;
    let nt = nr + nw;
    let nops = if cfg!(miri) { 6 } else { rng.range(8, 24) as usize };
    let base = exec_no << 24;
    let init = base + 1;
    let cont: Cont<S> = Arc::new(ArcSwapAny::<Arc<Root>, S>::new(new_root(init)));
    let clock = Arc::new(AtomicU64::new(1));
    let results: Arc<Mutex<Vec<Vec<Op>>>> = Arc::new(Mutex::new(Vec::new()));
    let viol_before = crate::viol::count();
    if mode == Mode::Token {
        let mut srng = Rng::new(sseed);
        let s = match srng.below(4) {
            0 => Strat::Pct { d: srng.range(1, 3) as u32, horizon: (nt * nops * 30) as u64 },
            1 => Strat::Adversary { victim: 0, k: srng.range(1, 2) as u32, p: *srng.pick(&[4, 8, 16]) },
            2 => Strat::Windows { p_in: 12, p_out: 1 },
            _ => Strat::Random { sw: *srng.pick(&[2, 4, 8, 16]) },
        };
        sched::token_prepare(nt, sseed, s, false);
    }
    let desc = json!({"workload": "access", "strategy": S::NAME, "exec_no": exec_no, "seed": seed, "sseed": sseed, "mode": format!("{:?}", mode), "readers": nr, "writers": nw});
    runner::set_current(desc.clone());
    let mut handles = Vec::new();
    for t in 0..nt {
        let cont = cont.clone();
        let clock = clock.clone();
        let results = results.clone();
        let tseed = rng.next();
        let is_writer = t >= nr;
        handles.push(spawn_worker(t, tseed, move || {
            let mut rng = Rng::new(tseed);
            let mut ops: Vec<Op> = Vec::new();
            let mut views: Vec<View> = Vec::new();
            let mut next = base + ((t as u64 + 1) << 16);
            let stamp = || clock.fetch_add(1, SeqCst);
            for _ in 0..nops {
                if is_writer && rng.chance(3, 5) {
                    next += 1;
                    let r = new_root(next);
                    let inv = stamp();
                    cont.store(r);
                    let resp = stamp();
                    ops.push(Op { t: t as u8, c: 0, kind: Kind::Store, a: next, cur_addr: 0, ret: 0, ret_addr: 0, inv, resp, path: 0 });
                } else if views.len() < 6 && rng.chance(2, 3) {
                    let k = rng.below(NCHAINS);
                    let inv = stamp();
                    let v = load_chain(&cont, k);
                    let resp = stamp();
                    runner::count(CHAIN_COUNTER[k as usize], 1);
                    if !v.constant {
                        ops.push(Op { t: t as u8, c: 0, kind: Kind::Load, a: 0, cur_addr: 0, ret: v.root, ret_addr: v.root, inv, resp, path: 0 });
                    }
                    check_view(&v, "right after the load");
                    views.push(v);
                } else if !views.is_empty() {
                    let i = rng.below(views.len() as u64) as usize;
                    let v = views.swap_remove(i);
                    check_view(&v, "at drop");
                    drop(v);
                }
                for v in views.iter() {
                    check_view(v, "while held");
                }
                sched::step(hs::OP_GAP);
            }
            while let Some(v) = views.pop() {
                check_view(&v, "at the end");
                drop(v);
            }
            drop(cont);
            results.lock().unwrap().push(ops);
        }));
    }
    if mode == Mode::Token {
        sched::token_start();
    }
    let mut ok = true;
    for h in handles {
        if !matches!(h.join(), Ok(true)) {
            ok = false;
        }
    }
    // progress for the watchdog, from the controlling thread
    sched::PROGRESS.fetch_add(1, std::sync::atomic::Ordering::Relaxed);
    let trace_hash = if mode == Mode::Token { unsafe { sched::inner() }.trace_hash } else { seed };
    let mut nops_total = 0;
    if ok {
        // static and dynamic dispatch agree on a quiet container, then consume it
        let fin = ArcSwapAny::load(&*cont).id;
        for k in 0..NCHAINS - 1 {
            let v = load_chain(&cont, k);
            if v.root != fin {
                report("C17", "dispatch-disagree", format!("on a quiet container holding {:x}, chain [{}] projects {:x}", fin, v.chain, v.root));
            }
        }
        let threads = std::mem::take(&mut *results.lock().unwrap());
        nops_total = threads.iter().map(|t| t.len()).sum();
        if runner::with(|r| r.samples.len()) < 2 {
            let mut all: Vec<Op> = threads.concat();
            all.sort_by_key(|o| o.inv);
            runner::sample(json!({"execution": desc, "history (load = a projection guard created on that root)": all.iter().take(40).map(|o| o.brief()).collect::<Vec<_>>()}), 2);
        }
        match lin::check(&threads, init, Some(fin), &HashMap::new(), 400_000) {
            Verdict::Ok => runner::count("histories.linearizable", 1),
            Verdict::Violation(m) => report("C17", "not-linearizable", format!("projection loads vs stores: {}", m)),
            Verdict::Inconclusive(m) => runner::inconclusive(json!({"checker": m})),
        }
        drop(cont);
    }
    *FLAGS.lock().unwrap() = None;
    if crate::viol::count() != viol_before {
        runner::collect_violations(&desc);
    }
    AccOut { ops: nops_total, trace_hash }
}

// ---- projections over an `ArcSwapOption` (third-round seeds C04p / C17p: a store of the empty
// value skipped the wait for readers). Sequential random programs: projection guards (plain load,
// static Map, boxed DynAccess) are held across stores of Some / None and swaps; every guard must
// keep projecting its snapshot, the snapshot must stay alive while a guard exists and be destroyed
// once nobody owns it.

static EMPTY_LEAF_ROOT: u64 = 0;

fn opt_root_id(o: &Option<Arc<Root>>) -> &u64 {
    match o {
        Some(r) => &r.mid.leaf.root,
        None => &EMPTY_LEAF_ROOT,
    }
}

pub fn option_program<S>(seed: u64) -> u64
where
    S: arc_swap::strategy::Strategy<Option<Arc<Root>>> + Default + Send + Sync + 'static,
{
    let mut rng = Rng::new(seed);
    let base = (seed & 0xFFFF_FFFF) << 24 | 0x8000_0000_0000_0000;
    let mut next = base + 1;
    let cont: Arc<ArcSwapAny<Option<Arc<Root>>, S>> = Arc::new(ArcSwapAny::new(Some(new_root(next))));
    let mut current = next;
    let mut views: Vec<View> = Vec::new();
    let mut checked = 0u64;
    let viol_before = crate::viol::count();
    for _ in 0..rng.range(10, 40) {
        match rng.below(6) {
            0 | 1 if views.len() < 10 => {
                let v = match rng.below(3) {
                    0 => view(ArcSwapAny::load(&*cont), "ArcSwapOption::load", |g| *opt_root_id(g)),
                    1 => {
                        let m = Map::new(cont.clone(), |o: &Option<Arc<Root>>| opt_root_id(o));
                        view(Access::load(&m), "Map over ArcSwapOption (static)", |g| **g)
                    }
                    _ => {
                        let d: Box<dyn DynAccess<u64>> = Box::new(Map::new(cont.clone(), |o: &Option<Arc<Root>>| opt_root_id(o)));
                        view(DynAccess::load(&*d), "Box<dyn DynAccess> over ArcSwapOption", |g| **g)
                    }
                };
                if v.root != current {
                    report("C17", "projection-stale", format!("[{}] on an ArcSwapOption projected {:x} although {:x} was stored last on the same thread", v.chain, v.root, current));
                }
                views.push(v);
            }
            2 => {
                next += 1;
                cont.store(Some(new_root(next)));
                current = next;
            }
            3 => {
                cont.store(None);
                current = 0;
            }
            4 => {
                let old = if rng.chance(1, 2) {
                    current = 0;
                    cont.swap(None)
                } else {
                    next += 1;
                    current = next;
                    cont.swap(Some(new_root(next)))
                };
                drop(old);
            }
            _ => {
                if !views.is_empty() {
                    let i = rng.below(views.len() as u64) as usize;
                    let v = views.swap_remove(i);
                    check_opt_view(&v, "at drop");
                    let root = v.root;
                    drop(v);
                    // tight reclamation: nobody else projects it and it is not stored any more
                    if root != 0 && root != current && !views.iter().any(|w| w.root == root) && !is_dropped(root) {
                        report("C17", "snapshot-retained", format!("root {:x} is still alive although its last projection guard is gone and it was replaced", root));
                    }
                }
            }
        }
        for v in views.iter() {
            check_opt_view(v, "while held");
            checked += 1;
        }
    }
    while let Some(v) = views.pop() {
        check_opt_view(&v, "at the end");
        drop(v);
    }
    drop(cont);
    *FLAGS.lock().unwrap() = None;
    if crate::viol::count() != viol_before {
        runner::collect_violations(&json!({"workload": "access/option-program", "seed": seed}));
    }
    checked
}

fn check_opt_view(v: &View, when: &str) {
    let now = (v.read)();
    if now != v.root {
        report("C17", "projection-changed", format!("a guard from [{}] showed root {:x} at creation and {:x} {}", v.chain, v.root, now, when));
    } else if v.root != 0 && is_dropped(v.root) {
        report("C17", "snapshot-dropped", format!("root {:x} was destroyed while a guard from [{}] still projects it ({})", v.root, v.chain, when));
    }
}


// ---- projections over a container of `Rc` (single-threaded by construction): the `Access<T>` impl
// of `ArcSwapAny<Rc<T>, S>` (direct deref), access through `Rc<ArcSwapAny<..>>` and `&ArcSwapAny`,
// static and boxed-dynamic `Map`s. Same oracle as above: one root per guard for its whole life, the
// root alive while a guard projects it, a load after a store shows that store, tight reclamation.

fn new_root_rc(id: u64) -> std::rc::Rc<Root> {
    let flag = Arc::new(AtomicBool::new(false));
    FLAGS.lock().unwrap().get_or_insert_with(HashMap::new).insert(id, flag.clone());
    ROOTS_LIVE.fetch_add(1, SeqCst);
    std::rc::Rc::new(Root { id, mid: Mid { root: id, leaf: leaf(id, 1), shared: Arc::new(leaf(id, 2)), boxed: Box::new(leaf(id, 3)) }, dropped: flag })
}

pub fn rc_program<S>(seed: u64) -> u64
where
    S: arc_swap::strategy::Strategy<std::rc::Rc<Root>> + Default + 'static,
{
    use std::rc::Rc;
    let mut rng = Rng::new(seed);
    let base = (seed & 0xFFFF_FFFF) << 24 | 0x4000_0000_0000_0000;
    let mut next = base + 1;
    let cont: Rc<ArcSwapAny<Rc<Root>, S>> = Rc::new(ArcSwapAny::new(new_root_rc(next)));
    let mut current = next;
    let mut views: Vec<View> = Vec::new();
    let mut checked = 0u64;
    let viol_before = crate::viol::count();
    for _ in 0..rng.range(10, 40) {
        match rng.below(6) {
            0 | 1 | 2 if views.len() < 12 => {
                let v = match rng.below(7) {
                    0 => view(ArcSwapAny::load(&*cont), "ArcSwapAny<Rc>::load", |g| g.id),
                    1 => view(<ArcSwapAny<Rc<Root>, S> as Access<Root>>::load(&cont), "Access<Root> for ArcSwapAny<Rc> (direct deref)", |g| g.id),
                    2 => view(<Rc<ArcSwapAny<Rc<Root>, S>> as Access<Rc<Root>>>::load(&cont), "Access through Rc<ArcSwapAny<Rc>>", |g| g.id),
                    3 => {
                        let m = Map::new(cont.clone(), |r: &Root| &r.mid);
                        view(Access::load(&m), "Map over Rc<ArcSwapAny<Rc>> (static)", |g| g.root)
                    }
                    4 => {
                        let m = Map::new(Map::new(cont.clone(), |r: &Rc<Root>| r), |r: &Rc<Root>| &r.mid.leaf);
                        view(Access::load(&m), "Map of identity Map over ArcSwapAny<Rc>", |g| g.root)
                    }
                    5 => {
                        let d: Box<dyn DynAccess<Mid>> = Box::new(Map::new(cont.clone(), |r: &Root| &r.mid));
                        let m = Map::new(AccessConvert(d), |m: &Mid| &*m.boxed);
                        view(Access::load(&m), "Map over AccessConvert(Box<dyn DynAccess>) over ArcSwapAny<Rc>", |g| g.root)
                    }
                    _ => view(cont.load_full(), "ArcSwapAny<Rc>::load_full", |g| g.id),
                };
                if v.root != current {
                    report("C17", "projection-stale", format!("[{}] projected {:x} although {:x} was stored last on the same thread", v.chain, v.root, current));
                }
                views.push(v);
            }
            3 => {
                next += 1;
                cont.store(new_root_rc(next));
                current = next;
            }
            4 => {
                next += 1;
                let old = cont.swap(new_root_rc(next));
                if old.id != current {
                    report("C04", "swap-wrong-previous", format!("swap on an ArcSwapAny<Rc> returned {:x}, stored was {:x}", old.id, current));
                }
                current = next;
                drop(old);
            }
            _ => {
                if !views.is_empty() {
                    let i = rng.below(views.len() as u64) as usize;
                    let v = views.swap_remove(i);
                    check_opt_view(&v, "at drop");
                    let root = v.root;
                    drop(v);
                    if root != current && !views.iter().any(|w| w.root == root) && !is_dropped(root) {
                        report("C17", "snapshot-retained", format!("root {:x} is still alive although its last projection guard is gone and it was replaced", root));
                    }
                }
            }
        }
        for v in views.iter() {
            check_opt_view(v, "while held");
            checked += 1;
        }
    }
    while let Some(v) = views.pop() {
        check_opt_view(&v, "at the end");
        drop(v);
    }
    drop(cont);
    *FLAGS.lock().unwrap() = None;
    if crate::viol::count() != viol_before {
        runner::collect_violations(&json!({"workload": "access/rc-program", "seed": seed}));
    }
    checked
}
