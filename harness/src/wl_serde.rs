//! serde transparency (C20): serializing a container produces exactly what serializing its
//! currently stored pointer produces (None included), deserializing produces a container holding
//! exactly the deserialized value with a single reference, round trips preserve the value for every
//! default-constructible strategy. Observation format: serde_json values / strings (a faithful
//! rendering of serde's data model for the value shapes used here) of container versus pointee.
//! Also: the value being serialized is a protected snapshot (a store made from inside the pointee's
//! `Serialize` impl neither changes the output nor destroys the value being written), and
//! `deserialize_in_place` into a container with outstanding guards leaves those guards valid.

use std::cell::RefCell;
use std::sync::atomic::Ordering::*;
use std::sync::atomic::{AtomicBool, AtomicI64};
use std::sync::Arc;

use arc_swap::strategy::test_strategies::FillFastSlots;
use arc_swap::strategy::Strategy;
use arc_swap::{ArcSwapAny, DefaultStrategy};
use serde::de::DeserializeOwned;
use serde::ser::SerializeStruct;
use serde::{Deserialize, Serialize};
use serde_json::json;

use crate::runner;
use crate::util::Rng;

#[derive(Serialize, Deserialize, Clone, PartialEq, Debug)]
pub enum En {
    Unit,
    New(u32),
    Tup(u8, String),
    Struct { x: i64, y: Option<bool> },
}

#[derive(Serialize, Deserialize, Clone, PartialEq, Debug)]
pub struct Doc {
    pub a: u64,
    pub s: String,
    pub o: Option<Box<Doc>>,
    pub v: Vec<u32>,
    pub t: (i8, bool, char),
    pub e: En,
    pub m: std::collections::BTreeMap<String, i32>,
    pub u: (),
}

pub fn gen_doc(rng: &mut Rng, depth: u32) -> Doc {
    let s: String = (0..rng.below(12)).map(|_| *rng.pick(&['a', 'ß', '"', '\\', '\n', '語', ' ', 'z'])).collect();
    Doc {
        a: rng.next() >> rng.below(64),
        s,
        o: if depth < 3 && rng.chance(1, 2) { Some(Box::new(gen_doc(rng, depth + 1))) } else { None },
        v: (0..rng.below(5)).map(|_| rng.next() as u32).collect(),
        t: (rng.next() as i8, rng.chance(1, 2), *rng.pick(&['x', 'é', '\u{1F600}'])),
        e: match rng.below(4) {
            0 => En::Unit,
            1 => En::New(rng.next() as u32),
            2 => En::Tup(rng.next() as u8, "t".repeat(rng.below(4) as usize)),
            _ => En::Struct { x: rng.next() as i64, y: if rng.chance(1, 2) { Some(rng.chance(1, 2)) } else { None } },
        },
        m: (0..rng.below(4)).map(|i| (format!("k{}", i), rng.next() as i32)).collect(),
        u: (),
    }
}

fn fail(law: &str, detail: String, seed: u64) {
    crate::viol::report("C20", law, detail);
    runner::collect_violations(&json!({"workload": "serde", "seed": seed, "law": law}));
}

fn check_value<T, S>(v: &T, v2: &T, sname: &str, seed: u64) -> u64
where
    T: Serialize + DeserializeOwned + Clone + PartialEq + std::fmt::Debug,
    S: Strategy<Arc<T>> + Strategy<Option<Arc<T>>> + Default,
{
    let mut checks = 0;
    let want = serde_json::to_string(v).unwrap();
    let want_val = serde_json::to_value(v).unwrap();
    // --- ArcSwapAny<Arc<T>>
    let c = ArcSwapAny::<Arc<T>, S>::new(Arc::new(v.clone()));
    let got = serde_json::to_string(&c).unwrap();
    checks += 1;
    if got != want {
        fail("serialize", format!("strategy {}: container serialized as {} but its value serializes as {}", sname, got, want), seed);
    }
    checks += 1;
    if serde_json::to_value(&c).unwrap() != want_val {
        fail("serialize-value", format!("strategy {}: token tree of the container differs from the pointee's", sname), seed);
    }
    // the same as serializing the pointer itself
    checks += 1;
    if serde_json::to_string(&c.load_full()).unwrap() != got {
        fail("serialize-pointer", format!("strategy {}: container and its loaded Arc serialize differently", sname), seed);
    }
    // a store between serializations is visible
    c.store(Arc::new(v2.clone()));
    checks += 1;
    if serde_json::to_string(&c).unwrap() != serde_json::to_string(v2).unwrap() {
        fail("serialize-after-store", format!("strategy {}: after a store the container does not serialize as the new value", sname), seed);
    }
    // deserialize: exactly the value, exactly one reference
    let d: ArcSwapAny<Arc<T>, S> = serde_json::from_str(&want).unwrap();
    let loaded = d.load_full();
    checks += 2;
    if *loaded != *v {
        fail("deserialize", format!("strategy {}: deserialized container holds {:?}, expected {:?}", sname, loaded, v), seed);
    }
    if Arc::strong_count(&loaded) != 2 {
        fail("deserialize-count", format!("strategy {}: the deserialized value has {} references, expected 2 (container + our handle)", sname, Arc::strong_count(&loaded)), seed);
    }
    drop(loaded);
    // round trip
    checks += 1;
    if serde_json::to_string(&d).unwrap() != want {
        fail("round-trip", format!("strategy {}: value changed in a serialize/deserialize round trip", sname), seed);
    }
    let inner = d.into_inner();
    checks += 1;
    if Arc::strong_count(&inner) != 1 {
        fail("deserialize-count", format!("strategy {}: {} references after into_inner of a deserialized container", sname, Arc::strong_count(&inner)), seed);
    }
    // --- ArcSwapAny<Option<Arc<T>>>: Some and None
    let some = ArcSwapAny::<Option<Arc<T>>, S>::new(Some(Arc::new(v.clone())));
    checks += 1;
    if serde_json::to_string(&some).unwrap() != serde_json::to_string(&Some(Arc::new(v.clone()))).unwrap() {
        fail("serialize-option-some", format!("strategy {}: Some(value) container serializes differently from Some(Arc)", sname), seed);
    }
    let none = ArcSwapAny::<Option<Arc<T>>, S>::new(None);
    checks += 1;
    if serde_json::to_string(&none).unwrap() != "null" {
        fail("serialize-option-none", format!("strategy {}: empty container serializes as {}", sname, serde_json::to_string(&none).unwrap()), seed);
    }
    let dn: ArcSwapAny<Option<Arc<T>>, S> = serde_json::from_str("null").unwrap();
    checks += 1;
    if dn.load().is_some() {
        fail("deserialize-option-none", format!("strategy {}: null deserialized to a non-empty container", sname), seed);
    }
    let ds: ArcSwapAny<Option<Arc<T>>, S> = serde_json::from_str(&want).unwrap();
    let l = ds.load_full();
    checks += 1;
    if l.as_deref() != Some(v) || l.as_ref().map(Arc::strong_count) != Some(2) {
        fail("deserialize-option-some", format!("strategy {}: Option container deserialized wrongly (count {:?})", sname, l.as_ref().map(Arc::strong_count)), seed);
    }
    checks
}

// ---- a pointee that runs user code in the middle of its own serialization

thread_local! {
    static MIDPOINT: RefCell<Option<Box<dyn FnMut()>>> = const { RefCell::new(None) };
}
pub static PROBES_LIVE: AtomicI64 = AtomicI64::new(0);

pub struct Probe {
    pub id: u64,
    pub text: String,
    dropped: Arc<AtomicBool>,
}

impl Probe {
    fn new(id: u64) -> (Arc<Probe>, Arc<AtomicBool>) {
        let f = Arc::new(AtomicBool::new(false));
        PROBES_LIVE.fetch_add(1, SeqCst);
        (Arc::new(Probe { id, text: format!("probe-{}", id), dropped: f.clone() }), f)
    }
}

impl Drop for Probe {
    fn drop(&mut self) {
        self.dropped.store(true, SeqCst);
        PROBES_LIVE.fetch_sub(1, SeqCst);
        self.id = !self.id;
        self.text = String::from("DESTROYED");
    }
}

impl Serialize for Probe {
    fn serialize<S: serde::Serializer>(&self, s: S) -> Result<S::Ok, S::Error> {
        let mut st = s.serialize_struct("Probe", 3)?;
        st.serialize_field("id", &self.id)?;
        // user code in the middle: may store into the container that is being serialized
        let f = MIDPOINT.with(|m| m.borrow_mut().take());
        if let Some(mut f) = f {
            f();
        }
        st.serialize_field("destroyed_while_serializing", &self.dropped.load(SeqCst))?;
        st.serialize_field("text", &self.text)?;
        st.end()
    }
}

impl<'de> Deserialize<'de> for Probe {
    fn deserialize<D: serde::Deserializer<'de>>(d: D) -> Result<Self, D::Error> {
        #[derive(Deserialize)]
        struct P {
            id: u64,
            text: String,
        }
        let p = P::deserialize(d)?;
        PROBES_LIVE.fetch_add(1, SeqCst);
        Ok(Probe { id: p.id, text: p.text, dropped: Arc::new(AtomicBool::new(false)) })
    }
}

fn check_snapshot<S: Strategy<Arc<Probe>> + Default + 'static>(sname: &str, seed: u64, hold: usize) -> u64 {
    let (p1, f1) = Probe::new(seed * 10 + 1);
    let (p2, _f2) = Probe::new(seed * 10 + 2);
    let c = Arc::new(ArcSwapAny::<Arc<Probe>, S>::new(p1));
    let guards: Vec<_> = (0..hold).map(|_| c.load()).collect();
    drop(guards.into_iter().skip(1).collect::<Vec<_>>()); // keep the slot rotation moving
    let c2 = c.clone();
    let mut p2 = Some(p2);
    MIDPOINT.with(|m| *m.borrow_mut() = Some(Box::new(move || c2.store(p2.take().unwrap()))));
    let out = serde_json::to_value(&*c).unwrap();
    let mut checks = 2;
    let want = json!({"id": seed * 10 + 1, "destroyed_while_serializing": false, "text": format!("probe-{}", seed * 10 + 1)});
    if out != want {
        fail("serialize-snapshot", format!("strategy {}: a store made while the container was being serialized changed the output: {} (expected {})", sname, out, want), seed);
    }
    let _ = f1;
    if c.load().id != seed * 10 + 2 {
        fail("serialize-snapshot", format!("strategy {}: the re-entrant store is not in the container afterwards", sname), seed);
    }
    // deserialize_in_place with guards outstanding
    let g = c.load();
    let held_id = g.id;
    let mut target: ArcSwapAny<Arc<Probe>, S> = ArcSwapAny::new(Probe::new(seed * 10 + 3).0);
    let tg = target.load();
    let tg_id = tg.id;
    let js = format!("{{\"id\": {}, \"text\": \"in-place\"}}", seed * 10 + 4);
    let mut de = serde_json::Deserializer::from_str(&js);
    Deserialize::deserialize_in_place(&mut de, &mut target).unwrap();
    checks += 3;
    if tg.id != tg_id || tg.text.starts_with("DESTROYED") {
        fail("deserialize-in-place-guard", format!("strategy {}: a guard taken before deserialize_in_place now shows id {:x} / text {:?}", sname, tg.id, tg.text), seed);
    }
    if target.load().id != seed * 10 + 4 || target.load().text != "in-place" {
        fail("deserialize-in-place", format!("strategy {}: deserialize_in_place did not install the value", sname), seed);
    }
    if Arc::strong_count(&target.load_full()) != 2 {
        fail("deserialize-in-place-count", format!("strategy {}: deserialize_in_place left {} references", sname, Arc::strong_count(&target.load_full())), seed);
    }
    drop(tg);
    if g.id != held_id {
        fail("serialize-snapshot", format!("strategy {}: a guard changed identity", sname), seed);
    }
    drop(g);
    drop(target);
    drop(c);
    checks
}

/// Serialization racing with stores from another thread (second-round seed C20y: the lock-based
/// strategy read the pointer before taking its lock): whatever a serialization produces must be
/// one whole, live probe, and successive serializations by one thread never go backwards.
fn check_concurrent<S: Strategy<Arc<Probe>> + Default + Send + Sync + 'static>(sname: &'static str, seed: u64, stores: u64) -> u64 {
    let c = Arc::new(ArcSwapAny::<Arc<Probe>, S>::new(Probe::new(1).0));
    let stop = Arc::new(AtomicBool::new(false));
    let mut readers = Vec::new();
    for r in 0..2 {
        let (c, stop) = (c.clone(), stop.clone());
        readers.push(std::thread::spawn(move || {
            let mut last = 0u64;
            let mut n = 0u64;
            let mut problems = Vec::new();
            while !stop.load(Relaxed) || n < 3 {
                let out = serde_json::to_value(&*c).unwrap();
                n += 1;
                let id = out["id"].as_u64().unwrap_or(u64::MAX);
                let ok = out["destroyed_while_serializing"] == json!(false) && out["text"] == json!(format!("probe-{}", id));
                if !ok || id < last {
                    problems.push(format!("strategy {}: reader {} serialized {} (previous id {}) while another thread was storing", sname, r, out, last));
                    break;
                }
                last = id;
                if n % 16 == 0 {
                    std::thread::yield_now();
                }
            }
            (n, problems)
        }));
    }
    for i in 2..(2 + stores) {
        c.store(Probe::new(i).0);
        if i % 8 == 0 {
            std::thread::yield_now();
        }
    }
    stop.store(true, Relaxed);
    let mut total = 0;
    for h in readers {
        if let Ok((n, problems)) = h.join() {
            total += n;
            for pb in problems {
                fail("serialize-concurrent-store", pb, seed);
            }
        }
    }
    drop(c);
    total
}

/// The concurrent part on its own (sanitizer and Miri jobs).
pub fn run_concurrent(seed: u64, rounds: u64, stores: u64) -> u64 {
    let mut n = 0;
    for r in 0..rounds {
        n += check_concurrent::<DefaultStrategy>("default", seed + r, stores);
        #[allow(deprecated)]
        {
            n += check_concurrent::<FillFastSlots>("fallback-only", seed + r, stores);
        }
        n += check_concurrent::<std::sync::RwLock<()>>("rwlock", seed + r, stores);
        crate::sched::PROGRESS.fetch_add(1, Relaxed);
    }
    let live = PROBES_LIVE.load(SeqCst);
    if live != 0 {
        fail("leak", format!("{} probe value(s) alive after the concurrent serde rounds", live), seed);
    }
    n
}

pub fn run(seed: u64, n: u64) -> (u64, u64) {
    let mut checks = 0;
    let mut rng = Rng::new(seed);
    for i in 0..n {
        let v = gen_doc(&mut rng, 0);
        let v2 = gen_doc(&mut rng, 0);
        let s = seed.wrapping_mul(1000) + i;
        checks += check_value::<Doc, DefaultStrategy>(&v, &v2, "default", s);
        #[allow(deprecated)]
        {
            checks += check_value::<Doc, FillFastSlots>(&v, &v2, "fallback-only", s);
        }
        checks += check_value::<Doc, std::sync::RwLock<()>>(&v, &v2, "rwlock", s);
        // scalars and strings as pointees
        checks += check_value::<u64, DefaultStrategy>(&v.a, &v2.a, "default", s);
        checks += check_value::<String, DefaultStrategy>(&v.s, &v2.s, "default", s);
        checks += check_value::<Option<Vec<u32>>, DefaultStrategy>(&Some(v.v.clone()), &None, "default", s);
        let hold = *rng.pick(&[0usize, 1, 9]);
        checks += check_snapshot::<DefaultStrategy>("default", s, hold);
        #[allow(deprecated)]
        {
            checks += check_snapshot::<FillFastSlots>("fallback-only", s, hold);
        }
        checks += check_snapshot::<std::sync::RwLock<()>>("rwlock", s, 0);
        runner::distinct_str(&serde_json::to_string(&v).unwrap());
        runner::sample(json!({"value": serde_json::to_value(&v).unwrap(), "container_serialized_as": serde_json::to_string(&ArcSwapAny::<Arc<Doc>, DefaultStrategy>::new(Arc::new(v.clone()))).unwrap()}), 2);
    }
    let live = PROBES_LIVE.load(SeqCst);
    if live != 0 {
        fail("leak", format!("{} probe value(s) alive after all serde programs", live), seed);
    }
    (n, checks)
}
