//! Re-entrancy at user-code points inside the crate (run under Miri): a `RefCnt` implementation is
//! user code, so whatever another thread could do at the moment one of its methods is called can
//! be done right there, on the same thread, deterministically. Scenario: `compare_and_swap` has
//! just exchanged the pointer and converts `new` (`into_ptr`); at that very moment a writer takes
//! the new value out of the container again and drops it.

use std::cell::RefCell;
use std::sync::Arc;

use arc_swap::{ArcSwapAny, RefCnt};

thread_local! {
    static AT_INTO: RefCell<Option<Box<dyn FnOnce()>>> = const { RefCell::new(None) };
}

/// std `Arc` with a callback in `into_ptr`.
#[derive(Clone)]
pub struct H(pub Arc<u64>);

unsafe impl RefCnt for H {
    type Base = u64;
    fn into_ptr(me: Self) -> *mut u64 {
        let f = AT_INTO.with(|c| c.borrow_mut().take());
        if let Some(f) = f {
            f();
        }
        Arc::into_raw(me.0) as *mut u64
    }
    fn as_ptr(me: &Self) -> *mut u64 {
        Arc::as_ptr(&me.0) as *mut u64
    }
    unsafe fn from_ptr(ptr: *const u64) -> Self {
        H(Arc::from_raw(ptr))
    }
}

static PARK: std::sync::atomic::AtomicU8 = std::sync::atomic::AtomicU8::new(0);

fn reader_hook(site: u16) {
    use std::sync::atomic::Ordering::SeqCst;
    // the reader parks inside its read-intent window until the writer is about to convert the
    // replacement it has just handed over
    if site == arc_swap::verif::Site::FALLBACK_LOAD as u16 && PARK.load(SeqCst) == 1 && std::thread::current().name() == Some("reent-reader") {
        PARK.store(2, SeqCst);
        while PARK.load(SeqCst) < 3 {
            std::thread::yield_now();
        }
    }
    // the helping writer, right after its hand-over succeeded and before it converts the replacement
    if site == arc_swap::verif::Site::HELP_CAS_OK as u16 && PARK.load(SeqCst) == 2 && std::thread::current().name() != Some("reent-w2") {
        PARK.store(3, SeqCst);
        wait_for(5);
    }
}

fn wait_for(v: u8) {
    use std::sync::atomic::Ordering::SeqCst;
    while PARK.load(SeqCst) < v {
        std::thread::yield_now();
    }
}

/// Second scenario (three threads): writer W1 helps a reader parked in its read-intent window; before
/// W1 converts (`into_ptr`) the replacement it has handed over, the reader takes it, uses it and
/// drops it, and a second writer takes the value out of the storage and drops it too.
/// PARK: 1 armed, 2 reader parked, 3 reader released, 4 reader done, 5 second writer done.
fn helped_reader_drops_first() {
    use arc_swap::strategy::test_strategies::FillFastSlots;
    use std::sync::atomic::Ordering::SeqCst;
    let c = Arc::new(ArcSwapAny::<H, FillFastSlots>::new(H(Arc::new(10))));
    PARK.store(1, SeqCst);
    arc_swap::verif::set_step_hook(Some(reader_hook));
    let c2 = c.clone();
    let reader = std::thread::Builder::new()
        .name("reent-reader".into())
        .spawn(move || {
            let g = c2.load(); // parks at FALLBACK_LOAD, gets helped by W1
            let v = *g.0;
            drop(g);
            PARK.store(4, SeqCst);
            v
        })
        .unwrap();
    let c3 = c.clone();
    let w2 = std::thread::Builder::new()
        .name("reent-w2".into())
        .spawn(move || {
            wait_for(4);
            let taken = c3.swap(H(Arc::new(12)));
            drop(taken);
            PARK.store(5, SeqCst);
        })
        .unwrap();
    wait_for(2);
    // W1 = this thread: its help() hands the value it stores over to the reader; the hook stops it at
    // HELP_CAS_OK until the reader and the second writer are done with that value.
    c.store(H(Arc::new(11)));
    if PARK.load(SeqCst) < 3 {
        // the hand-over did not happen (the reader was not helped): let everybody go
        PARK.store(3, SeqCst);
    }
    let got = reader.join().unwrap();
    w2.join().unwrap();
    assert!(got == 10 || got == 11);
    arc_swap::verif::set_step_hook(None);
    AT_INTO.with(|a| *a.borrow_mut() = None);
}

/// Returns the number of scenarios run.
pub fn run() -> u64 {
    let mut n = 0;
    helped_reader_drops_first();
    n += 1;
    for via_rcu in [false, true] {
        let c = Arc::new(ArcSwapAny::<H>::new(H(Arc::new(1))));
        let cur = c.load_full();
        let c2 = c.clone();
        // armed for the first conversion made on this thread from now on: the one of `new` inside
        // the successful compare_and_swap
        AT_INTO.with(|a| {
            *a.borrow_mut() = Some(Box::new(move || {
                // "another writer": takes the freshly stored value out and drops it
                let taken = c2.swap(H(Arc::new(3)));
                drop(taken);
            }))
        });
        if via_rcu {
            let prev = c.rcu(|_| H(Arc::new(2)));
            assert_eq!(*prev.0, 1);
        } else {
            let prev = c.compare_and_swap(&cur, H(Arc::new(2)));
            assert_eq!(*prev.0, 1);
        }
        assert_eq!(*c.load().0, 3);
        drop(cur);
        n += 1;
    }
    n
}
