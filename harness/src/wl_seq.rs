//! Sequential reference-model workload (C14; also the tightness half of C02 and the form
//! equivalence half of C05): seeded random single-threaded programs over the public API are run
//! under each strategy and compared, after every step, with a plain-variable model: returned
//! identities exactly, reference counts through the conservation law
//!     strong + occupied debt slots == containers storing it + owned handles + live guards
//! (every step of a single-threaded program is a quiescent point), destruction exactly when the
//! last owner goes (tightness), nothing alive and no slot occupied at the end.

use std::collections::HashMap;

use arc_swap::{ArcSwapAny, Guard};
use serde_json::json;

use crate::exec::{node_invariants, StratExt};
use crate::runner;
use crate::tp::{self, AllocMode, Val};
use crate::util::{mix, Rng};
use crate::viol::report;

const POOL: usize = 6;

struct St<V: Val, S: StratExt<V>> {
    conts: Vec<Option<ArcSwapAny<V, S>>>,
    model: Vec<Option<u64>>,
    pool: Vec<Option<V>>,
    guards: Vec<(Guard<V, S>, u64)>,
    log: Vec<String>,
    next_id: u64,
    base: u64,
    /// id -> address, for every value ever created in this program
    addr: HashMap<u64, usize>,
}

impl<V: Val, S: StratExt<V>> St<V, S> {
    fn fresh(&mut self) -> V {
        self.next_id += 1;
        let v = V::fresh(self.base + self.next_id);
        self.addr.insert(v.vid(), v.addr());
        v
    }

    /// A value to put somewhere: a clone of a pool entry, a fresh one, or the empty value.
    fn some_value(&mut self, rng: &mut Rng) -> V {
        match rng.below(8) {
            0 => {
                let v = V::none();
                if v.vid() != 0 {
                    // a pointer kind without an empty value hands out an ordinary value here
                    self.addr.insert(v.vid(), v.addr());
                }
                v
            }
            1..=4 => {
                let i = rng.below(POOL as u64) as usize;
                if self.pool[i].is_none() {
                    let v = self.fresh();
                    self.pool[i] = Some(v);
                }
                self.pool[i].as_ref().unwrap().clone()
            }
            _ => self.fresh(),
        }
    }

    fn live_conts(&self) -> Vec<usize> {
        (0..self.conts.len()).filter(|&i| self.conts[i].is_some()).collect()
    }
}

/// Expected number of user-visible owners per value id.
fn expected<V: Val, S: StratExt<V>>(st: &St<V, S>) -> HashMap<u64, (isize, isize, isize)> {
    // id -> (containers, owned handles, guards)
    let mut m: HashMap<u64, (isize, isize, isize)> = HashMap::new();
    for c in st.model.iter().flatten() {
        if *c != 0 {
            m.entry(*c).or_default().0 += 1;
        }
    }
    for p in st.pool.iter().flatten() {
        let id = p.vid();
        if id != 0 {
            m.entry(id).or_default().1 += 1;
        }
    }
    for (_, id) in st.guards.iter() {
        if *id != 0 {
            m.entry(*id).or_default().2 += 1;
        }
    }
    m
}

fn check_counts<V: Val, S: StratExt<V>>(st: &St<V, S>, ledger: bool, step: usize) -> Option<String> {
    let exp = expected(st);
    if ledger {
        let (_, occ, problems) = node_invariants(false);
        if let Some(p) = problems.first() {
            return Some(format!("after step {}: {}", step, p));
        }
        for addr in tp::registry_snapshot() {
            let o = unsafe { &*(addr as *const tp::Obj) };
            let id = o.id.load(std::sync::atomic::Ordering::Relaxed);
            if !st.addr.contains_key(&id) {
                continue;
            }
            let live = o.state.load(std::sync::atomic::Ordering::Relaxed) == tp::LIVE;
            let strong = o.strong.load(std::sync::atomic::Ordering::Relaxed) as isize;
            let slots = *occ.get(&addr).unwrap_or(&0) as isize;
            let (c, h, g) = exp.get(&id).copied().unwrap_or((0, 0, 0));
            if c + h + g == 0 {
                if live {
                    return Some(format!("after step {}: value {:x} has no owner left but has not been destroyed (strong {}, slots {})", step, id, strong, slots));
                }
                if slots != 0 {
                    return Some(format!("after step {}: destroyed value {:x} still occupies {} debt slot(s)", step, id, slots));
                }
            } else {
                if !live {
                    return Some(format!("after step {}: value {:x} is destroyed although {} container(s), {} handle(s), {} guard(s) refer to it", step, id, c, h, g));
                }
                if strong + slots != c + h + g {
                    return Some(format!(
                        "after step {}: value {:x}: strong {} + debt slots {} != containers {} + handles {} + guards {}",
                        step, id, strong, slots, c, h, g
                    ));
                }
                if slots > g {
                    return Some(format!("after step {}: value {:x}: {} debt slots but {} guards", step, id, slots, g));
                }
            }
        }
    } else {
        // No ledger (std Arc): the count is known exactly without guards, else within an interval.
        for p in st.pool.iter().flatten() {
            let id = p.vid();
            if id == 0 {
                continue;
            }
            let (c, h, g) = exp.get(&id).copied().unwrap_or((0, 0, 0));
            let strong = p.strong() as isize;
            if strong < c + h || strong > c + h + g {
                return Some(format!("after step {}: value {:x}: strong count {} outside [{}, {}]", step, id, strong, c + h, c + h + g));
            }
        }
    }
    None
}

pub struct ProgOut {
    pub hash: u64,
    pub steps: usize,
    pub failed: bool,
}

/// Run one seeded program under strategy `S`. Returns the hash of the sequence of observable
/// results (identical for all strategies if they all agree with the model).
pub fn run_program<V: Val, S: StratExt<V>>(seed: u64, len: usize, ledger: bool) -> ProgOut {
    let mut rng = Rng::new(seed);
    V::program_start();
    let mut st: St<V, S> = St {
        conts: Vec::new(),
        model: Vec::new(),
        pool: (0..POOL).map(|_| None).collect(),
        guards: Vec::new(),
        log: Vec::new(),
        next_id: 0,
        base: (seed & 0xFF_FFFF) << 16,
        addr: HashMap::new(),
    };
    let mut hash = 0u64;
    let mut fail: Option<String> = None;
    let viol_before = crate::viol::count();
    macro_rules! expect_id {
        ($what:expr, $got:expr, $want:expr) => {
            if $got != $want && fail.is_none() {
                fail = Some(format!("{}: returned {:x}, the model says {:x}", $what, $got, $want));
            }
        };
    }
    for step in 0..len {
        let live = st.live_conts();
        let op = if live.is_empty() { 0 } else { rng.weighted(&[6, 22, 8, 6, 3, 14, 10, 10, 10, 5, 2, 2, 4, 3, 3]) };
        match op {
            0 => {
                if st.conts.iter().filter(|c| c.is_some()).count() < 3 {
                    let v = st.some_value(&mut rng);
                    let id = v.vid();
                    // every way of constructing a container
                    let (cont, how): (ArcSwapAny<V, S>, &str) = match rng.below(4) {
                        0 => (ArcSwapAny::<V, S>::new(v), "new"),
                        1 => (ArcSwapAny::<V, S>::from(v), "from"),
                        2 => (ArcSwapAny::<V, S>::with_strategy(v, S::default()), "with_strategy"),
                        _ => (v.into(), "into"),
                    };
                    st.conts.push(Some(cont));
                    st.model.push(Some(id));
                    st.log.push(format!("c{} = {}({:x})", st.conts.len() - 1, how, id));
                }
            }
            1 => {
                let c = *rng.pick(&live);
                if st.guards.len() < 12 {
                    let g = st.conts[c].as_ref().unwrap().load();
                    let id = g.vid();
                    st.log.push(format!("g = c{}.load() -> {:x}", c, id));
                    expect_id!("load", id, st.model[c].unwrap());
                    hash = mix(hash, id);
                    st.guards.push((g, id));
                }
            }
            2 => {
                let c = *rng.pick(&live);
                let v = st.conts[c].as_ref().unwrap().load_full();
                let id = v.vid();
                st.log.push(format!("c{}.load_full() -> {:x}", c, id));
                expect_id!("load_full", id, st.model[c].unwrap());
                hash = mix(hash, id);
                let i = rng.below(POOL as u64) as usize;
                st.pool[i] = Some(v);
            }
            3 => {
                if !st.guards.is_empty() {
                    let i = rng.below(st.guards.len() as u64) as usize;
                    let (g, id) = st.guards.swap_remove(i);
                    let v = Guard::into_inner(g);
                    st.log.push(format!("Guard::into_inner(guard on {:x}) -> {:x}", id, v.vid()));
                    expect_id!("Guard::into_inner", v.vid(), id);
                    let k = rng.below(POOL as u64) as usize;
                    st.pool[k] = Some(v);
                }
            }
            4 => {
                if st.guards.len() < 12 {
                    let v = st.some_value(&mut rng);
                    let id = v.vid();
                    let g: Guard<V, S> = if rng.chance(1, 2) { Guard::from_inner(v) } else { Guard::from(v) };
                    st.log.push(format!("g = Guard::from_inner({:x})", id));
                    expect_id!("Guard::from_inner", g.vid(), id);
                    st.guards.push((g, id));
                }
            }
            5 => {
                if !st.guards.is_empty() {
                    let i = rng.below(st.guards.len() as u64) as usize;
                    let (g, id) = st.guards.swap_remove(i);
                    expect_id!("guard at drop", g.vid(), id);
                    st.log.push(format!("drop(guard on {:x})", id));
                    drop(g);
                }
            }
            6 => {
                let c = *rng.pick(&live);
                let v = st.some_value(&mut rng);
                let id = v.vid();
                st.log.push(format!("c{}.store({:x})", c, id));
                st.conts[c].as_ref().unwrap().store(v);
                st.model[c] = Some(id);
            }
            7 => {
                let c = *rng.pick(&live);
                let v = st.some_value(&mut rng);
                let id = v.vid();
                let old = st.conts[c].as_ref().unwrap().swap(v);
                st.log.push(format!("c{}.swap({:x}) -> {:x}", c, id, old.vid()));
                expect_id!("swap", old.vid(), st.model[c].unwrap());
                hash = mix(hash, old.vid());
                st.model[c] = Some(id);
                if rng.chance(1, 2) {
                    let k = rng.below(POOL as u64) as usize;
                    st.pool[k] = Some(old);
                }
            }
            8 => {
                // compare_and_swap with every form of `current`
                let c = *rng.pick(&live);
                let new = st.some_value(&mut rng);
                let new_id = new.vid();
                let cont = st.conts[c].as_ref().unwrap();
                let stored = st.model[c].unwrap();
                let stored_addr = if stored == 0 { 0 } else { *st.addr.get(&stored).unwrap_or(&0) };
                let form = rng.below(6);
                let gi = if st.guards.is_empty() { None } else { Some(rng.below(st.guards.len() as u64) as usize) };
                let pi = st.pool.iter().position(|p| p.is_some());
                let (prev, cur_addr, fname): (Guard<V, S>, usize, &str) = match (form, gi, pi) {
                    (0, Some(gi), _) => {
                        let (g, _) = st.guards.swap_remove(gi);
                        let a = g.addr();
                        (S::cas_guard_owned(cont, g, new), a, "Guard")
                    }
                    (1, Some(gi), _) => {
                        let a = st.guards[gi].0.addr();
                        (S::cas_guard_ref(cont, &st.guards[gi].0, new), a, "&Guard")
                    }
                    (2, Some(gi), _) => {
                        let a = st.guards[gi].0.addr();
                        let raw = V::as_ptr(&st.guards[gi].0) as *const V::Base;
                        (cont.compare_and_swap(raw, new), a, "*const")
                    }
                    (3, _, Some(pi)) => {
                        let a = st.pool[pi].as_ref().unwrap().addr();
                        let raw = V::as_ptr(st.pool[pi].as_ref().unwrap());
                        (cont.compare_and_swap(raw, new), a, "*mut")
                    }
                    (4, _, _) => {
                        // null for None (or for a pointer type without an empty value: just some mismatch)
                        let raw: *const V::Base = std::ptr::null();
                        (cont.compare_and_swap(raw, new), 0, "null")
                    }
                    (_, _, Some(pi)) => {
                        let a = st.pool[pi].as_ref().unwrap().addr();
                        (cont.compare_and_swap(st.pool[pi].as_ref().unwrap(), new), a, "&T")
                    }
                    _ => {
                        let cur = cont.load_full();
                        let a = cur.addr();
                        (cont.compare_and_swap(&cur, new), a, "&T(loaded)")
                    }
                };
                let success_expected = cur_addr == stored_addr;
                st.log.push(format!("c{}.compare_and_swap({} @{:#x}, {:x}) -> {:x}", c, fname, cur_addr, new_id, prev.vid()));
                expect_id!("compare_and_swap", prev.vid(), stored);
                hash = mix(hash, prev.vid());
                if success_expected {
                    st.model[c] = Some(new_id);
                }
                let now = st.conts[c].as_ref().unwrap().load();
                let now_id = now.vid();
                drop(now);
                if now_id != st.model[c].unwrap() && fail.is_none() {
                    fail = Some(format!(
                        "compare_and_swap ({} form, expected {:#x}, stored {:#x}): container holds {:x} afterwards, the model says {:x}",
                        fname, cur_addr, stored_addr, now_id, st.model[c].unwrap()
                    ));
                }
                if st.guards.len() < 12 && rng.chance(1, 2) {
                    let id = prev.vid();
                    st.guards.push((prev, id));
                }
            }
            9 => {
                // rcu, optionally with a re-entrant store that forces one retry
                let c = *rng.pick(&live);
                let v1 = st.some_value(&mut rng);
                let v2 = st.some_value(&mut rng);
                let interfere = if rng.chance(1, 3) { Some(st.some_value(&mut rng)) } else { None };
                let inter_id = interfere.as_ref().map(|v| v.vid());
                let (id1, id2) = (v1.vid(), v2.vid());
                let cont = st.conts[c].as_ref().unwrap();
                let mut seen: Vec<u64> = Vec::new();
                let mut interfere = interfere;
                let prev = cont.rcu(|cur: &V| {
                    seen.push(cur.vid());
                    if let Some(x) = interfere.take() {
                        cont.store(x);
                    }
                    if seen.len() == 1 {
                        v1.clone()
                    } else {
                        v2.clone()
                    }
                });
                st.log.push(format!("c{}.rcu(..) closure saw {:x?}, -> {:x}", c, seen, prev.vid()));
                let stored = st.model[c].unwrap();
                let (want_seen, want_prev, want_final) = match inter_id {
                    // an interfering store of the very same pointer does not make the exchange fail
                    Some(x) if *st.addr.get(&x).unwrap_or(&0) != *st.addr.get(&stored).unwrap_or(&0) || (x == 0) != (stored == 0) => (vec![stored, x], x, id2),
                    Some(x) => (vec![stored], x, id1),
                    None => (vec![stored], stored, id1),
                };
                if seen != want_seen && fail.is_none() {
                    fail = Some(format!("rcu: closure saw {:x?}, the model says {:x?}", seen, want_seen));
                }
                expect_id!("rcu", prev.vid(), want_prev);
                hash = mix(hash, prev.vid());
                st.model[c] = Some(want_final);
                drop(v1);
                drop(v2);
                let k = rng.below(POOL as u64) as usize;
                st.pool[k] = Some(prev);
            }
            10 => {
                let c = *rng.pick(&live);
                let cont = st.conts[c].take().unwrap();
                let v = cont.into_inner();
                st.log.push(format!("c{}.into_inner() -> {:x}", c, v.vid()));
                expect_id!("into_inner", v.vid(), st.model[c].unwrap());
                hash = mix(hash, v.vid());
                st.model[c] = None;
                let k = rng.below(POOL as u64) as usize;
                st.pool[k] = Some(v);
            }
            11 => {
                let c = *rng.pick(&live);
                st.log.push(format!("drop(c{})", c));
                let cont = st.conts[c].take().unwrap();
                drop(cont);
                st.model[c] = None;
            }
            13 => {
                // Debug formatting of the container goes through a load; of a guard through deref
                let c = *rng.pick(&live);
                let cont = st.conts[c].as_ref().unwrap();
                let txt = format!("{:?}", cont);
                let cur = cont.load_full();
                let want = format!("ArcSwapAny({:?})", cur);
                st.log.push(format!("format!(c{}) -> {}", c, txt));
                expect_id!("load_full after format", cur.vid(), st.model[c].unwrap());
                if txt != want && fail.is_none() {
                    fail = Some(format!("Debug of the container prints {} but it holds {}", txt, want));
                }
                drop(cur);
                if let Some((g, _)) = st.guards.last() {
                    let a = format!("{:?}", g);
                    let b = format!("{:?}", &**g);
                    if a != b && fail.is_none() {
                        fail = Some(format!("Debug of a guard prints {} but it denotes {}", a, b));
                    }
                }
            }
            14 => {
                // rcu whose closure hands back the value it was given: the exchange succeeds at once,
                // the container keeps its value, the previous value is returned
                let c = *rng.pick(&live);
                let cont = st.conts[c].as_ref().unwrap();
                let mut calls = 0;
                let prev = cont.rcu(|cur: &V| {
                    calls += 1;
                    cur.clone()
                });
                st.log.push(format!("c{}.rcu(identity) -> {:x} ({} calls)", c, prev.vid(), calls));
                expect_id!("rcu(identity)", prev.vid(), st.model[c].unwrap());
                if calls != 1 && fail.is_none() {
                    fail = Some(format!("rcu(identity) called its closure {} times in a single-threaded program", calls));
                }
                hash = mix(hash, prev.vid());
                let k = rng.below(POOL as u64) as usize;
                st.pool[k] = Some(prev);
            }
            _ => {
                let k = rng.below(POOL as u64) as usize;
                if let Some(v) = st.pool[k].take() {
                    st.log.push(format!("drop(handle on {:x})", v.vid()));
                    drop(v);
                }
            }
        }
        if fail.is_none() {
            // identity of every guard is stable
            for (g, id) in st.guards.iter() {
                if g.vid() != *id {
                    fail = Some(format!("a guard created on {:x} denotes {:x} after step {}", id, g.vid(), step));
                    break;
                }
            }
        }
        if fail.is_none() {
            fail = check_counts(&st, ledger, step);
        }
        if fail.is_some() || crate::viol::count() != viol_before {
            break;
        }
    }
    let steps = st.log.len();
    // tear down in a seeded order, then everything must be gone
    let log = std::mem::take(&mut st.log);
    let mut failed = false;
    if fail.is_none() && crate::viol::count() == viol_before {
        while !st.guards.is_empty() || st.conts.iter().any(|c| c.is_some()) || st.pool.iter().any(|p| p.is_some()) {
            match rng.below(3) {
                0 if !st.guards.is_empty() => {
                    let i = rng.below(st.guards.len() as u64) as usize;
                    drop(st.guards.swap_remove(i));
                }
                1 => {
                    if let Some(i) = st.conts.iter().position(|c| c.is_some()) {
                        st.model[i] = None;
                        drop(st.conts[i].take());
                    }
                }
                _ => {
                    if let Some(i) = st.pool.iter().position(|p| p.is_some()) {
                        drop(st.pool[i].take());
                    }
                }
            }
            if let Some(f) = check_counts(&st, ledger, usize::MAX) {
                fail = Some(format!("during tear-down: {}", f));
                break;
            }
        }
        if fail.is_none() {
            let (_, _, problems) = node_invariants(true);
            if let Some(p) = problems.first() {
                fail = Some(format!("at the end: {}", p));
            }
        }
    }
    if let Some(f) = fail {
        failed = true;
        let prop = if f.contains("compare_and_swap") { "C05" } else if f.contains("strong") || f.contains("destroyed") || f.contains("slot") { "C02" } else { "C14" };
        crate::viol::report(prop, "model-mismatch", format!("strategy {} / {}: {}", S::NAME, V::NAME, f));
    }
    if crate::viol::count() != viol_before {
        failed = true;
        runner::collect_violations(&json!({"workload": "seq", "strategy": S::NAME, "value": V::NAME, "seed": seed, "program": log}));
        // The state may be inconsistent: do not run destructors of what is left.
        std::mem::forget(st);
    } else if runner::with(|r| r.samples.len()) < 2 {
        runner::sample(json!({"strategy": S::NAME, "value": V::NAME, "seed": seed, "program": log.iter().take(60).collect::<Vec<_>>()}), 2);
    }
    if ledger && tp::alloc_mode() != AllocMode::Real {
        for leak in tp::end_epoch() {
            if !failed {
                report("C02", "leak", format!("sequential program (strategy {}): never destroyed: {}", S::NAME, leak));
                runner::collect_violations(&json!({"workload": "seq", "strategy": S::NAME, "seed": seed, "program": log}));
            }
        }
    }
    ProgOut { hash, steps, failed }
}
