//! `Tp`: a harness-defined reference-counted pointer implementing `arc_swap::RefCnt`, with a
//! ledger. Every count operation, conversion, dereference and the destructor are observed here.
//!
//! Happens-before discipline: ledger fields use relaxed atomics only. The strong count is
//! incremented with Relaxed and decremented with AcqRel; destruction synchronises through the
//! counter only (no fence), like a triomphe-style pointer. The payload is *plain* memory written
//! before publication, read through handles and overwritten by the destructor, so that TSan / Miri
//! see any missing happens-before edge as a data race on it.

use std::cell::UnsafeCell;
use std::ptr::NonNull;
use std::sync::atomic::Ordering::*;
use std::sync::atomic::{AtomicI64, AtomicIsize, AtomicU32, AtomicU64, AtomicU8, AtomicUsize};
use std::sync::Mutex;

use arc_swap::RefCnt;

use crate::sched::{hs, step};
use crate::viol::report;

pub const LIVE: u8 = 1;
pub const DEAD: u8 = 2;
const POISON: u64 = 0xDEAD_DEAD_DEAD_DEAD;

#[derive(Copy, Clone, PartialEq, Eq, Debug)]
#[repr(u8)]
pub enum AllocMode {
    /// Objects are never released during an epoch: use-after-destruction is deterministic.
    Quarantine = 0,
    /// LIFO free list: destroyed blocks are handed out again at once (ABA pressure).
    Reuse = 1,
    /// Real allocation and deallocation (sanitizers / Miri / memcheck are the UAF oracle).
    Real = 2,
}

static ALLOC_MODE: AtomicU8 = AtomicU8::new(0);

pub fn set_alloc_mode(m: AllocMode) {
    ALLOC_MODE.store(m as u8, Relaxed);
}

pub fn alloc_mode() -> AllocMode {
    match ALLOC_MODE.load(Relaxed) {
        1 => AllocMode::Reuse,
        2 => AllocMode::Real,
        _ => AllocMode::Quarantine,
    }
}

#[repr(C, align(16))]
pub struct Obj {
    pub strong: AtomicUsize,
    pub state: AtomicU8,
    pub kind: AtomicU8,
    /// What the destructor should do besides dying (fault plans, C18): 0 = nothing.
    pub drop_action: AtomicU8,
    pub incarnation: AtomicU32,
    pub id: AtomicU64,
    /// Handles on this object currently held by the harness (owned).
    pub owners: AtomicIsize,
    /// Guards on this object currently held by the harness.
    pub guards: AtomicIsize,
    /// Plain data: (id, !id).
    pub payload: UnsafeCell<[u64; 2]>,
}

unsafe impl Sync for Obj {}
unsafe impl Send for Obj {}

// Ledger statistics (relaxed).
pub static ALLOCS: AtomicU64 = AtomicU64::new(0);
pub static DESTROYS: AtomicU64 = AtomicU64::new(0);
pub static INCS: AtomicU64 = AtomicU64::new(0);
pub static DECS: AtomicU64 = AtomicU64::new(0);
pub static LIVE_OBJS: AtomicI64 = AtomicI64::new(0);
/// Destructions that happened while the destroying thread was between PAYALL_BEGIN and PAYALL_END.
pub static DESTROY_IN_PAYALL: AtomicU64 = AtomicU64::new(0);

static REGISTRY: Mutex<Vec<usize>> = Mutex::new(Vec::new());
static FREELIST: Mutex<Vec<usize>> = Mutex::new(Vec::new());

/// Hook consulted by the destructor for fault injection: returns true if this destruction must
/// panic. Set by the C18 workload.
pub static DROP_FAULT: Mutex<Option<fn(u64, u8) -> bool>> = Mutex::new(None);
static DROP_FAULT_ON: AtomicU8 = AtomicU8::new(0);

pub fn set_drop_fault(f: Option<fn(u64, u8) -> bool>) {
    DROP_FAULT_ON.store(f.is_some() as u8, Relaxed);
    *DROP_FAULT.lock().unwrap_or_else(|e| e.into_inner()) = f;
}

/// Description of an object for a report. In real-allocation mode the memory may be released by
/// another thread at any moment (we are reporting a broken invariant), so it is not looked at and
/// no reference to it is held across the call.
fn describe_ptr(p: *const Obj) -> String {
    if alloc_mode() == AllocMode::Real {
        format!("object at {:p} (real allocation mode)", p)
    } else {
        unsafe { &*p }.describe()
    }
}

impl Obj {
    fn describe(&self) -> String {
        format!(
            "obj id={} inc={} kind={} strong={} state={} owners={} guards={}",
            self.id.load(Relaxed),
            self.incarnation.load(Relaxed),
            self.kind.load(Relaxed),
            self.strong.load(Relaxed),
            self.state.load(Relaxed),
            self.owners.load(Relaxed),
            self.guards.load(Relaxed)
        )
    }

    /// Ledger rule 1: no event on a destroyed object (checkable only while the memory is ours).
    #[inline]
    fn check_live(&self, what: &str) {
        if alloc_mode() != AllocMode::Real && self.state.load(Relaxed) != LIVE {
            report(
                "C01",
                "use-after-destroy",
                format!("{} on destroyed {} (thread {})", what, self.describe(), crate::sched::tid()),
            );
        }
    }
}

fn alloc_obj(kind: u8, id: u64) -> NonNull<Obj> {
    ALLOCS.fetch_add(1, Relaxed);
    LIVE_OBJS.fetch_add(1, Relaxed);
    let mode = alloc_mode();
    if mode == AllocMode::Reuse {
        let reused = FREELIST.lock().unwrap_or_else(|e| e.into_inner()).pop();
        if let Some(addr) = reused {
            let o = unsafe { &*(addr as *const Obj) };
            o.strong.store(1, Relaxed);
            o.kind.store(kind, Relaxed);
            o.drop_action.store(0, Relaxed);
            o.incarnation.fetch_add(1, Relaxed);
            o.id.store(id, Relaxed);
            o.owners.store(0, Relaxed);
            o.guards.store(0, Relaxed);
            unsafe { *o.payload.get() = [id, !id] };
            o.state.store(LIVE, Relaxed);
            return unsafe { NonNull::new_unchecked(addr as *mut Obj) };
        }
    }
    let b = Box::new(Obj {
        strong: AtomicUsize::new(1),
        state: AtomicU8::new(LIVE),
        kind: AtomicU8::new(kind),
        drop_action: AtomicU8::new(0),
        incarnation: AtomicU32::new(0),
        id: AtomicU64::new(id),
        owners: AtomicIsize::new(0),
        guards: AtomicIsize::new(0),
        payload: UnsafeCell::new([id, !id]),
    });
    let p = Box::into_raw(b);
    if mode != AllocMode::Real {
        REGISTRY.lock().unwrap_or_else(|e| e.into_inner()).push(p as usize);
    }
    unsafe { NonNull::new_unchecked(p) }
}

#[inline(never)]
fn destroy(p: NonNull<Obj>) {
    step(hs::TP_DESTROY);
    let o = unsafe { p.as_ref() };
    let mode = alloc_mode();
    let prev = o.state.swap(DEAD, Relaxed);
    if prev != LIVE {
        report("C02", "double-destroy", format!("second destruction of {}", o.describe()));
        return;
    }
    let owners = o.owners.load(Relaxed);
    let guards = o.guards.load(Relaxed);
    if owners > 0 || guards > 0 {
        // Ledger rule 2: the harness provably still holds a handle to this object.
        report(
            "C01",
            "destroyed-while-held",
            format!("destroyed while the harness holds {} owned handle(s) and {} guard(s): {}", owners, guards, o.describe()),
        );
    }
    if crate::runner::in_payall() {
        DESTROY_IN_PAYALL.fetch_add(1, Relaxed);
    }
    DESTROYS.fetch_add(1, Relaxed);
    LIVE_OBJS.fetch_sub(1, Relaxed);
    let id = o.id.load(Relaxed);
    let action = o.drop_action.load(Relaxed);
    // The destructor's write to the plain payload (races with unsynchronised readers).
    unsafe { *o.payload.get() = [POISON, id] };
    match mode {
        AllocMode::Real => unsafe { drop(Box::from_raw(p.as_ptr())) },
        AllocMode::Reuse => FREELIST.lock().unwrap_or_else(|e| e.into_inner()).push(p.as_ptr() as usize),
        AllocMode::Quarantine => {}
    }
    let _ = action;
    // fault plans (C18): the destructor is user code
    crate::fault::hit(crate::fault::K_DESTRUCTOR);
}

/// End of an epoch (execution): all threads joined, nothing in flight. Returns descriptions of
/// objects that are still alive (leaks) and releases all the blocks.
pub fn end_epoch() -> Vec<String> {
    let mut leaks = Vec::new();
    if alloc_mode() == AllocMode::Real {
        return leaks;
    }
    FREELIST.lock().unwrap_or_else(|e| e.into_inner()).clear();
    let blocks = std::mem::take(&mut *REGISTRY.lock().unwrap_or_else(|e| e.into_inner()));
    for addr in blocks {
        let o = unsafe { &*(addr as *const Obj) };
        if o.state.load(Relaxed) == LIVE {
            leaks.push(o.describe());
            LIVE_OBJS.fetch_sub(1, Relaxed);
        }
        unsafe { drop(Box::from_raw(addr as *mut Obj)) };
    }
    leaks
}

/// All blocks of the current epoch (quarantine / reuse modes).
pub fn registry_snapshot() -> Vec<usize> {
    REGISTRY.lock().unwrap_or_else(|e| e.into_inner()).clone()
}

/// The tracked pointer. `K` is a kind tag standing for "a different pointee type".
pub struct Tp<const K: u8> {
    p: NonNull<Obj>,
}

unsafe impl<const K: u8> Send for Tp<K> {}
unsafe impl<const K: u8> Sync for Tp<K> {}

impl<const K: u8> Tp<K> {
    pub fn new(id: u64) -> Self {
        Tp { p: alloc_obj(K, id) }
    }

    #[inline]
    pub fn obj(&self) -> &Obj {
        unsafe { self.p.as_ref() }
    }

    pub fn addr(&self) -> usize {
        self.p.as_ptr() as usize
    }

    /// Dereference: read the plain payload and check that it is the one written at creation.
    #[inline]
    pub fn read(&self) -> u64 {
        let o = self.obj();
        o.check_live("deref");
        let [a, b] = unsafe { std::ptr::read_volatile(o.payload.get()) };
        if a != !b {
            report(
                "C01",
                "payload-corrupt",
                format!("payload ({:#x},{:#x}) read through a handle is not what was written at creation: {}", a, b, o.describe()),
            );
        }
        if o.kind.load(Relaxed) != K {
            report("C12", "kind-mismatch", format!("handle of kind {} denotes {}", K, o.describe()));
        }
        a
    }

    pub fn id(&self) -> u64 {
        self.obj().id.load(Relaxed)
    }

    pub fn strong(&self) -> usize {
        self.obj().strong.load(Relaxed)
    }

    pub fn set_drop_action(&self, a: u8) {
        self.obj().drop_action.store(a, Relaxed);
    }
}

impl<const K: u8> Clone for Tp<K> {
    #[inline]
    fn clone(&self) -> Self {
        step(hs::TP_INC);
        let o = self.obj();
        o.check_live("inc");
        let prev = o.strong.fetch_add(1, Relaxed);
        INCS.fetch_add(1, Relaxed);
        if prev == 0 {
            report("C01", "resurrect", format!("count incremented from 0: {}", describe_ptr(self.p.as_ptr())));
        }
        Tp { p: self.p }
    }
}

impl<const K: u8> Drop for Tp<K> {
    #[inline]
    fn drop(&mut self) {
        step(hs::TP_DEC);
        let o = self.obj();
        o.check_live("dec");
        DECS.fetch_add(1, Relaxed);
        let prev = o.strong.fetch_sub(1, AcqRel);
        if prev == 0 {
            report("C02", "count-underflow", format!("count decremented below 0: {}", describe_ptr(self.p.as_ptr())));
        } else if prev == 1 {
            destroy(self.p);
        }
    }
}

unsafe impl<const K: u8> RefCnt for Tp<K> {
    type Base = Obj;

    fn into_ptr(me: Self) -> *mut Obj {
        // Not a count operation and not a dereference: the crate's compare_and_swap converts `new`
        // only after the successful exchange, when another writer may already have taken the
        // value out again and destroyed it. The property does not forbid that, so no ledger check.
        step(hs::TP_INTO);
        let p = me.p.as_ptr();
        std::mem::forget(me);
        p
    }

    fn as_ptr(me: &Self) -> *mut Obj {
        me.p.as_ptr()
    }

    unsafe fn from_ptr(ptr: *const Obj) -> Self {
        let p = NonNull::new(ptr as *mut Obj).expect("Tp::from_ptr(null)");
        let o = p.as_ref();
        o.check_live("from_ptr");
        if alloc_mode() != AllocMode::Real && o.kind.load(Relaxed) != K {
            // the known address-reuse mechanism D5 (a reader's debt on a stale pointer is paid by a
            // writer of another container whose value reuses the address) is told apart by the path
            // markers of the load in progress: the reader then either keeps the pointer (prepaid
            // branch of the fast path) or releases the count it was given (helped fallback)
            let marks = crate::sched::peek_marks();
            let prepaid = marks & (1u128 << (arc_swap::verif::Site::ATTEMPT_PREPAID as u16)) != 0;
            let fb_paid = marks & (1u128 << (arc_swap::verif::Site::FALLBACK_UNUSED_PAID as u16)) != 0;
            if prepaid || fb_paid {
                report(
                    "C12",
                    "stale-debt-paid-by-foreign-writer-wrong-type",
                    format!(
                        "a load of a container of kind {} {} an object of kind {} (a value of another container living at a reused address): the crate treats a wrongly typed object as its own",
                        K,
                        if prepaid { "took the prepaid branch of the fast path and was handed" } else { "released, in the helped fallback, the count it had been given on" },
                        o.kind.load(Relaxed)
                    ),
                );
            } else {
                report("C12", "kind-mismatch", format!("from_ptr::<kind {}> on {} (thread {}, path marks {:#x})", K, o.describe(), crate::sched::tid(), crate::sched::peek_marks()));
            }
        }
        Tp { p }
    }
}

// ---------------------------------------------------------------------------------------------
// `Val`: what the workloads need from a stored value; implemented for the tracked pointer and for
// real `Arc`s (so that nothing depends on `Tp`'s own peculiarities).

pub trait Val: RefCnt + Clone + Send + Sync + std::fmt::Debug + 'static {
    const NAME: &'static str;
    fn fresh(id: u64) -> Self;
    fn none() -> Self;
    /// Identity: dereferences the value (0 for the empty value).
    fn vid(&self) -> u64;
    /// Raw address (0 for the empty value).
    fn addr(&self) -> usize;
    fn strong(&self) -> usize;
    /// Ledger: the harness now holds / gives up an owned handle.
    fn note_owner(&self, d: isize);
    /// Ledger: the harness now holds / gives up a guard.
    fn note_guard(&self, d: isize);
    fn set_drop_action(&self, _a: u8) {}
    /// Ledger, by address: for a value the harness knows to be alive but has no handle on (the
    /// value retained inside a `Cache`).
    fn note_owner_addr(_addr: usize, _d: isize) {}
    /// Start of a sequential program (ids handed out by `none()` of a kind without an empty value
    /// restart, so that the same program yields the same ids under every strategy).
    fn program_start() {}
}

impl<const K: u8> Val for Option<Tp<K>> {
    const NAME: &'static str = "Option<Tp>";
    fn fresh(id: u64) -> Self {
        Some(Tp::new(id))
    }
    fn none() -> Self {
        None
    }
    fn vid(&self) -> u64 {
        match self {
            Some(t) => {
                let id = t.read();
                let hid = t.id();
                if alloc_mode() != AllocMode::Reuse && id != hid {
                    report("C10", "identity-changed", format!("payload id {} != header id {}", id, hid));
                }
                id
            }
            None => 0,
        }
    }
    fn addr(&self) -> usize {
        self.as_ref().map(|t| t.addr()).unwrap_or(0)
    }
    fn strong(&self) -> usize {
        self.as_ref().map(|t| t.strong()).unwrap_or(0)
    }
    fn note_owner(&self, d: isize) {
        if let Some(t) = self {
            t.obj().owners.fetch_add(d, Relaxed);
        }
    }
    fn note_guard(&self, d: isize) {
        if let Some(t) = self {
            t.obj().guards.fetch_add(d, Relaxed);
        }
    }
    fn set_drop_action(&self, a: u8) {
        if let Some(t) = self {
            t.set_drop_action(a)
        }
    }
    fn note_owner_addr(addr: usize, d: isize) {
        if addr != 0 {
            unsafe { &*(addr as *const Obj) }.owners.fetch_add(d, Relaxed);
        }
    }
}

impl<const K: u8> Val for Tp<K> {
    const NAME: &'static str = "Tp";
    fn fresh(id: u64) -> Self {
        Tp::new(id)
    }
    fn none() -> Self {
        // The non-optional pointer has no empty value; workloads that need one use Option<Tp>.
        Tp::new(u64::MAX)
    }
    fn vid(&self) -> u64 {
        self.read()
    }
    fn addr(&self) -> usize {
        Tp::addr(self)
    }
    fn strong(&self) -> usize {
        Tp::strong(self)
    }
    fn note_owner(&self, d: isize) {
        self.obj().owners.fetch_add(d, Relaxed);
    }
    fn note_guard(&self, d: isize) {
        self.obj().guards.fetch_add(d, Relaxed);
    }
    fn set_drop_action(&self, a: u8) {
        Tp::set_drop_action(self, a)
    }
    fn note_owner_addr(addr: usize, d: isize) {
        if addr != 0 {
            unsafe { &*(addr as *const Obj) }.owners.fetch_add(d, Relaxed);
        }
    }
}

impl<const K: u8> std::fmt::Debug for Tp<K> {
    /// Reads the payload through the handle (a monitored dereference).
    fn fmt(&self, f: &mut std::fmt::Formatter) -> std::fmt::Result {
        write!(f, "Tp({:x})", self.read())
    }
}

impl std::fmt::Debug for Payload {
    fn fmt(&self, f: &mut std::fmt::Formatter) -> std::fmt::Result {
        let [a, _] = unsafe { std::ptr::read_volatile(self.cell.get()) };
        write!(f, "Payload({:x})", a)
    }
}

/// Pointee for the real-`Arc` flavour.
pub struct Payload {
    pub cell: UnsafeCell<[u64; 2]>,
    pub vec: Vec<u64>,
}

unsafe impl Sync for Payload {}
unsafe impl Send for Payload {}

pub static ARC_LIVE: AtomicI64 = AtomicI64::new(0);

impl Drop for Payload {
    fn drop(&mut self) {
        ARC_LIVE.fetch_sub(1, Relaxed);
        DESTROYS.fetch_add(1, Relaxed);
        unsafe { *self.cell.get() = [POISON, 0] };
    }
}

impl Val for Option<std::sync::Arc<Payload>> {
    const NAME: &'static str = "Option<Arc>";
    fn fresh(id: u64) -> Self {
        ARC_LIVE.fetch_add(1, Relaxed);
        ALLOCS.fetch_add(1, Relaxed);
        Some(std::sync::Arc::new(Payload { cell: UnsafeCell::new([id, !id]), vec: vec![id; 3] }))
    }
    fn none() -> Self {
        None
    }
    fn vid(&self) -> u64 {
        match self {
            Some(a) => {
                let [x, y] = unsafe { std::ptr::read_volatile(a.cell.get()) };
                if x != !y || a.vec.len() != 3 || a.vec[2] != x {
                    report("C01", "payload-corrupt", format!("Arc payload ({:#x},{:#x}) corrupt", x, y));
                }
                x
            }
            None => 0,
        }
    }
    fn addr(&self) -> usize {
        self.as_ref().map(|a| std::sync::Arc::as_ptr(a) as usize).unwrap_or(0)
    }
    fn strong(&self) -> usize {
        self.as_ref().map(std::sync::Arc::strong_count).unwrap_or(0)
    }
    fn note_owner(&self, _d: isize) {}
    fn note_guard(&self, _d: isize) {}
}

// ---- the `Rc` kinds as a stored value (sequential workloads only): a thin wrapper that forwards
// every `RefCnt` method to the crate's own impls for `Option<Rc<_>>` / `Rc<_>`, so that those impls
// (which no multi-threaded workload can reach) are driven by the same programs and oracles.

#[derive(Clone, Debug)]
pub struct RcOpt(pub Option<std::rc::Rc<Payload>>);

// Only ever used by single-threaded programs; the bounds of `Val` are for the concurrent workloads.
unsafe impl Send for RcOpt {}
unsafe impl Sync for RcOpt {}

type RcInner = Option<std::rc::Rc<Payload>>;

unsafe impl RefCnt for RcOpt {
    type Base = Payload;
    fn into_ptr(me: Self) -> *mut Payload {
        <RcInner as RefCnt>::into_ptr(me.0)
    }
    fn as_ptr(me: &Self) -> *mut Payload {
        <RcInner as RefCnt>::as_ptr(&me.0)
    }
    unsafe fn from_ptr(ptr: *const Payload) -> Self {
        RcOpt(<RcInner as RefCnt>::from_ptr(ptr))
    }
    fn inc(me: &Self) -> *mut Payload {
        <RcInner as RefCnt>::inc(&me.0)
    }
    unsafe fn dec(ptr: *const Payload) {
        <RcInner as RefCnt>::dec(ptr)
    }
}

impl Val for RcOpt {
    const NAME: &'static str = "Option<Rc>";
    fn fresh(id: u64) -> Self {
        ARC_LIVE.fetch_add(1, Relaxed);
        ALLOCS.fetch_add(1, Relaxed);
        RcOpt(Some(std::rc::Rc::new(Payload { cell: UnsafeCell::new([id, !id]), vec: vec![id; 3] })))
    }
    fn none() -> Self {
        RcOpt(None)
    }
    fn vid(&self) -> u64 {
        match &self.0 {
            Some(a) => {
                let [x, y] = unsafe { std::ptr::read_volatile(a.cell.get()) };
                if x != !y || a.vec.len() != 3 || a.vec[2] != x {
                    report("C01", "payload-corrupt", format!("Rc payload ({:#x},{:#x}) corrupt", x, y));
                }
                x
            }
            None => 0,
        }
    }
    fn addr(&self) -> usize {
        self.0.as_ref().map(|a| std::rc::Rc::as_ptr(a) as usize).unwrap_or(0)
    }
    fn strong(&self) -> usize {
        self.0.as_ref().map(std::rc::Rc::strong_count).unwrap_or(0)
    }
    fn note_owner(&self, _d: isize) {}
    fn note_guard(&self, _d: isize) {}
}

/// The non-optional `Rc` kind (the crate's `RefCnt for Rc<T>` itself, `inc` / `dec` included).
#[derive(Clone, Debug)]
pub struct RcPlain(pub std::rc::Rc<Payload>);

unsafe impl Send for RcPlain {}
unsafe impl Sync for RcPlain {}

type RcP = std::rc::Rc<Payload>;

unsafe impl RefCnt for RcPlain {
    type Base = Payload;
    fn into_ptr(me: Self) -> *mut Payload {
        <RcP as RefCnt>::into_ptr(me.0)
    }
    fn as_ptr(me: &Self) -> *mut Payload {
        <RcP as RefCnt>::as_ptr(&me.0)
    }
    unsafe fn from_ptr(ptr: *const Payload) -> Self {
        RcPlain(<RcP as RefCnt>::from_ptr(ptr))
    }
    fn inc(me: &Self) -> *mut Payload {
        <RcP as RefCnt>::inc(&me.0)
    }
    unsafe fn dec(ptr: *const Payload) {
        <RcP as RefCnt>::dec(ptr)
    }
}

static RC_NONE_IDS: AtomicU64 = AtomicU64::new(0);

impl Val for RcPlain {
    const NAME: &'static str = "Rc";
    fn fresh(id: u64) -> Self {
        ARC_LIVE.fetch_add(1, Relaxed);
        ALLOCS.fetch_add(1, Relaxed);
        RcPlain(std::rc::Rc::new(Payload { cell: UnsafeCell::new([id, !id]), vec: vec![id; 3] }))
    }
    fn none() -> Self {
        // no empty value: an ordinary value with an id of its own
        Self::fresh(0xEEEE_0000_0000_0000 | RC_NONE_IDS.fetch_add(1, Relaxed))
    }
    fn program_start() {
        RC_NONE_IDS.store(0, Relaxed);
    }
    fn vid(&self) -> u64 {
        let a = &self.0;
        let [x, y] = unsafe { std::ptr::read_volatile(a.cell.get()) };
        if x != !y || a.vec.len() != 3 || a.vec[2] != x {
            report("C01", "payload-corrupt", format!("Rc payload ({:#x},{:#x}) corrupt", x, y));
        }
        x
    }
    fn addr(&self) -> usize {
        std::rc::Rc::as_ptr(&self.0) as usize
    }
    fn strong(&self) -> usize {
        std::rc::Rc::strong_count(&self.0)
    }
    fn note_owner(&self, _d: isize) {}
    fn note_guard(&self, _d: isize) {}
}

// ---- the weak pointer kind as a stored value: the targets are kept alive by a keeper, so the
// container (which must not keep them alive itself) can be checked by identity; emptying the keeper
// at the end lets the allocations go once the last Weak is released (LSan / Miri decide that).

static KEEPER: Mutex<Vec<std::sync::Arc<Payload>>> = Mutex::new(Vec::new());

pub fn weak_keeper_clear() -> usize {
    let v = std::mem::take(&mut *KEEPER.lock().unwrap_or_else(|e| e.into_inner()));
    let n = v.len();
    drop(v);
    n
}

impl Val for std::sync::Weak<Payload> {
    const NAME: &'static str = "Weak";
    fn fresh(id: u64) -> Self {
        ARC_LIVE.fetch_add(1, Relaxed);
        ALLOCS.fetch_add(1, Relaxed);
        let a = std::sync::Arc::new(Payload { cell: UnsafeCell::new([id, !id]), vec: vec![id; 3] });
        let w = std::sync::Arc::downgrade(&a);
        KEEPER.lock().unwrap_or_else(|e| e.into_inner()).push(a);
        w
    }
    fn none() -> Self {
        std::sync::Weak::new()
    }
    fn vid(&self) -> u64 {
        match self.upgrade() {
            Some(a) => {
                let [x, y] = unsafe { std::ptr::read_volatile(a.cell.get()) };
                if x != !y || a.vec.len() != 3 || a.vec[2] != x {
                    report("C01", "payload-corrupt", format!("payload ({:#x},{:#x}) behind a Weak is corrupt", x, y));
                }
                x
            }
            None => {
                if !std::sync::Weak::ptr_eq(self, &std::sync::Weak::new()) {
                    report("C15", "weak-target-gone", "a Weak loaded from the container cannot be upgraded although its target is kept alive".to_string());
                }
                0
            }
        }
    }
    fn addr(&self) -> usize {
        if std::sync::Weak::ptr_eq(self, &std::sync::Weak::new()) {
            0
        } else {
            std::sync::Weak::as_ptr(self) as usize
        }
    }
    fn strong(&self) -> usize {
        std::sync::Weak::weak_count(self)
    }
    fn note_owner(&self, _d: isize) {}
    fn note_guard(&self, _d: isize) {}
}
