//! Thread-lifecycle workload (C10, C11): rounds of short-lived threads that load, keep and hand
//! over guards and then exit (their debt node goes to cooldown with slots possibly still
//! occupied and is re-claimed by threads of later rounds), while a long-lived writer walks all the
//! nodes and a long-lived keeper holds the handed-over guards across their creators' exits.
//! Some short-lived threads also run container operations from a thread-local destructor that is
//! destroyed after the crate's own thread-local (the "TLS gone" path).
//!
//! Oracles: everything of the core workload (ledger, conservation law, histories) plus
//!  * node count <= 2 x peak number of threads alive at once (hook `nodes()`),
//!  * no two threads own the same node at overlapping times (hook `thread_node()`; intervals are
//!    recorded strictly inside real ownership, so an overlap of recorded intervals implies an
//!    overlap of real ones),
//!  * a thread's node does not change during its life.

use std::cell::RefCell;
use std::collections::HashMap;
use std::sync::atomic::Ordering::*;
use std::sync::atomic::{AtomicBool, AtomicU64, AtomicUsize};
use std::sync::{Arc, Mutex};

use arc_swap::{ArcSwapAny, Guard};
use serde_json::json;

use crate::exec::{set_exit_tail, spawn_worker, Cont, HBarrier, StratExt};
use crate::runner;
use crate::sched::{self, hs, Mode, Strat};
use crate::tp::{self, Val};
use crate::util::Rng;
use crate::viol::report;
use crate::wl_core::{analyze, end_phase, quiescent_check, ExecOut, Profile, Shared, Worker, WorkerResult, ALLW, NOPS};

/// Peak number of workload threads alive at once in this process (all executions).
pub static PEAK_ALIVE: AtomicUsize = AtomicUsize::new(0);

#[derive(Clone, Debug)]
pub struct LifeCfg {
    pub exec_no: u64,
    pub wseed: u64,
    pub sseed: u64,
    pub mode: Mode,
    pub record: bool,
    pub step_budget: u32,
}

struct LifeShared {
    /// (node address, unique thread number, begin stamp, end stamp)
    own_log: Mutex<Vec<(usize, u64, u64, u64)>>,
    max_nodes: AtomicUsize,
    tls_gone_ops: AtomicU64,
}

//                             Ld LdD LdF DrG GIn DrO  St  Sw Cas Rcu Snd Rcv StS Ver
const CHILD_W: [u32; NOPS] = [30, 14, 6, 8, 3, 4, 4, 5, 3, 2, 16, 1, 0, 4];
const WRITER_W: [u32; NOPS] = [2, 4, 2, 2, 1, 8, 25, 30, 10, 8, 0, 0, 2, 1];
const KEEPER_W: [u32; NOPS] = [4, 8, 3, 20, 6, 8, 2, 2, 1, 1, 0, 35, 0, 10];

pub fn run_life<V: Val, S: StratExt<V>>(p: &Profile, cfg: &LifeCfg) -> ExecOut
where
    Guard<V, S>: Send,
{
    let mut rng = Rng::new(cfg.wseed);
    let rounds = rng.range(2, 5) as usize;
    let per_round = rng.range(1, if p.max_threads > 4 { 8 } else { 3 }) as usize;
    let child_ops = rng.range(3, 9) as usize;
    let long_ops = rounds * per_round * child_ops / 2 + 6;
    let nc = rng.range(1, p.max_conts as u64) as usize;
    let nt_long = 3;
    let nt_total = nt_long + per_round;
    PEAK_ALIVE.fetch_max(nt_total, Relaxed);
    let viol_before = crate::viol::count();

    let mut init_ids = Vec::new();
    let mut addr_of: HashMap<u64, u64> = HashMap::new();
    let mut conts: Vec<Cont<V, S>> = Vec::new();
    for c in 0..nc {
        let v = if rng.below(16) < p.none_p { V::none() } else { V::fresh(crate::wl_core::id_block() + 1) };
        init_ids.push(v.vid());
        addr_of.insert(v.vid(), v.addr() as u64);
        conts.push(Arc::new(ArcSwapAny::<V, S>::new(v)));
    }
    let sh = Arc::new(Shared::<V, S> {
        clock: AtomicU64::new(1),
        mailbox: Mutex::new(Vec::new()),
        b1: HBarrier::new(nt_long),
        b2: HBarrier::new(nt_long),
        results: Mutex::new(Vec::new()),
        fin: Mutex::new(Vec::new()),
        q1_done: AtomicBool::new(false),
        stop: AtomicBool::new(false),
        profile: p.clone(),
        exec_no: cfg.exec_no,
        step_budget: cfg.step_budget,
    });
    let lsh = Arc::new(LifeShared { own_log: Mutex::new(Vec::new()), max_nodes: AtomicUsize::new(0), tls_gone_ops: AtomicU64::new(0) });

    let strat = if cfg.mode == Mode::Token {
        let mut srng = Rng::new(cfg.sseed);
        let s = match srng.below(8) {
            0..=2 => Strat::Random { sw: *srng.pick(&[1, 2, 4, 8, 12, 16]) },
            3..=4 => Strat::Windows { p_in: *srng.pick(&[8, 12, 16]), p_out: *srng.pick(&[0, 1, 2]) },
            5..=6 => Strat::Pct { d: srng.range(1, 3) as u32, horizon: (rounds * per_round * child_ops * 60) as u64 },
            // the writer (tid 1) as the adversary's victim: whole child lives fit between two of its steps
            _ => Strat::Adversary { victim: *srng.pick(&[1usize, 2]), k: srng.range(1, 4) as u32, p: *srng.pick(&[1, 2, 4]) },
        };
        sched::token_prepare(nt_long, cfg.sseed, s.clone(), cfg.record);
        Some(s)
    } else {
        None
    };
    let desc = json!({"workload": "life", "profile": p.name, "value": V::NAME, "strategy": S::NAME, "exec_no": cfg.exec_no, "wseed": cfg.wseed,
        "sseed": cfg.sseed, "mode": format!("{:?}", cfg.mode), "rounds": rounds, "threads_per_round": per_round, "containers": nc,
        "sched": format!("{:?}", strat), "alloc": format!("{:?}", tp::alloc_mode())});
    runner::set_current(desc.clone());

    let mk_worker = {
        let sh = sh.clone();
        let conts = conts.clone();
        move |t: usize, seed: u64| Worker::<V, S> {
            t,
            rng: Rng::new(seed),
            conts: conts.to_vec(),
            sh: sh.clone(),
            guards: Vec::new(),
            owned: Vec::new(),
            seen_addrs: Vec::new(),
            next_id: crate::wl_core::id_block(),
            res: RefCell::new(WorkerResult { t, ..Default::default() }),
            last_path: std::cell::Cell::new(0),
            budgets: std::cell::Cell::new((sh.step_budget, sh.step_budget)),
            last_steps: std::cell::Cell::new(0),
            caches: Vec::new(),
            pending: RefCell::new(None),
        }
    };

    let mut handles = Vec::new();
    // ---- long-lived writer (1) and keeper (2)
    for (t, weights) in [(1usize, WRITER_W), (2usize, KEEPER_W)] {
        let mk = mk_worker.clone();
        let sh2 = sh.clone();
        let seed = rng.next();
        handles.push(spawn_worker(t, seed, move || {
            let mut w = mk(t, seed);
            for _ in 0..long_ops {
                let op = ALLW[w.rng.weighted(&weights)];
                w.do_op(op);
                sched::step(hs::OP_GAP);
            }
            end_phase(w, &sh2);
        }));
    }
    // ---- director (0): spawns the rounds of short-lived threads
    {
        let mk = mk_worker.clone();
        let sh2 = sh.clone();
        let lsh2 = lsh.clone();
        let seed = rng.next();
        let mode = cfg.mode;
        let exec_no = cfg.exec_no;
        handles.push(spawn_worker(0, seed, move || {
            let mut w = mk(0, seed);
            let mut uniq = 0u64;
            for r in 0..rounds {
                let mut hs_ = Vec::new();
                for k in 0..per_round {
                    let tid = nt_long + k;
                    uniq += 1;
                    let cseed = w.rng.next();
                    let mk2 = mk.clone();
                    let sh3 = sh2.clone();
                    let lsh3 = lsh2.clone();
                    let my_uniq = (exec_no << 16) | uniq;
                    if mode == Mode::Token {
                        sched::token_add_participant(tid);
                    }
                    hs_.push(spawn_worker(tid, cseed, move || child_body(mk2, sh3, lsh3, tid, cseed, my_uniq, child_ops)));
                }
                // wait for the whole round to be gone (thread-local destructors included)
                if mode == Mode::Token {
                    loop {
                        let done = (0..per_round).all(|k| sched::status(nt_long + k) == sched::ST_FINISHED);
                        if done {
                            break;
                        }
                        sched::yield_blocked();
                    }
                    sched::unblocked();
                }
                for h in hs_ {
                    if !matches!(h.join(), Ok(true)) {
                        runner::count("life.child_panicked", 1);
                    }
                }
                let n = arc_swap::verif::nodes().len();
                lsh2.max_nodes.fetch_max(n, Relaxed);
                // the director itself uses the containers between the rounds
                let op = ALLW[w.rng.weighted(&CHILD_W)];
                w.do_op(op);
                let _ = r;
            }
            end_phase(w, &sh2);
        }));
    }
    drop(mk_worker);
    drop(conts);
    if cfg.mode == Mode::Token {
        sched::token_start();
    }
    let mut all_ok = true;
    for h in handles {
        if !matches!(h.join(), Ok(true)) {
            all_ok = false;
        }
    }
    let left = std::mem::take(&mut *sh.mailbox.lock().unwrap());
    for h in left {
        drop(crate::wl_core::release(h));
    }
    let (trace_hash, steps) = if cfg.mode == Mode::Token {
        let inn = unsafe { sched::inner() };
        (inn.trace_hash, inn.nsteps)
    } else {
        (0, 0)
    };
    runner::count("life.tls_gone_ops", lsh.tls_gone_ops.load(Relaxed));
    runner::count("life.threads_created", (rounds * per_round) as u64);

    // ---- C11 oracles
    let nodes = arc_swap::verif::nodes().len().max(lsh.max_nodes.load(Relaxed));
    runner::maximum("nodes", nodes as u64);
    let peak = PEAK_ALIVE.load(Relaxed);
    runner::maximum("peak_threads_alive", peak as u64);
    if nodes > 2 * peak {
        report(
            "C11",
            "node-growth",
            format!("{} debt nodes exist although at most {} threads were ever alive at once (bound 2 x peak = {})", nodes, peak, 2 * peak),
        );
    }
    let log = std::mem::take(&mut *lsh.own_log.lock().unwrap());
    runner::count("life.ownership_intervals", log.len() as u64);
    for (i, a) in log.iter().enumerate() {
        for b in log.iter().skip(i + 1) {
            if a.0 == b.0 && a.1 != b.1 && a.2 < b.3 && b.2 < a.3 {
                report(
                    "C11",
                    "node-shared",
                    format!("node {:#x} was owned by two threads at overlapping times: thread #{:x} during [{},{}] and thread #{:x} during [{},{}]", a.0, a.1, a.2, a.3, b.1, b.2, b.3),
                );
            }
        }
    }
    let mut out = analyze::<V, S>(p, &desc, &sh, all_ok, init_ids, addr_of, nt_total, nc, cfg.mode, cfg.record, viol_before, trace_hash, steps);
    out.trace_hash = if cfg.mode == Mode::Token { trace_hash } else { out.trace_hash };
    out
}

fn child_body<V: Val, S: StratExt<V>>(
    mk: impl Fn(usize, u64) -> Worker<V, S> + Send + 'static,
    sh: Arc<Shared<V, S>>,
    lsh: Arc<LifeShared>,
    tid: usize,
    seed: u64,
    uniq: u64,
    nops: usize,
) where
    Guard<V, S>: Send,
{
    let mut w = mk(tid, seed);
    // Operations from a thread-local destructor that runs after the crate's thread-local is gone.
    if w.rng.chance(1, 3) {
        let mk2_seed = w.rng.next();
        let mut tw = mk(tid, mk2_seed);
        let sh2 = sh.clone();
        let lsh2 = lsh.clone();
        set_exit_tail(Box::new(move || {
            let before = sched::site_hit_local(arc_swap::verif::Site::WITH_TLS_GONE as u16);
            let k = tw.rng.range(1, 4);
            for _ in 0..k {
                let op = ALLW[tw.rng.weighted(&CHILD_W)];
                tw.do_op(op);
            }
            // everything must be given up here: nothing runs after this on the thread
            while let Some((_, h)) = tw.guards.pop() {
                if tw.rng.chance(1, 2) {
                    sh2.mailbox.lock().unwrap().push(h);
                } else {
                    let g = crate::wl_core::release(h);
                    tw.call(false, || drop(g));
                }
            }
            while let Some(o) = tw.owned.pop() {
                drop(crate::wl_core::disown(o));
            }
            let after = sched::site_hit_local(arc_swap::verif::Site::WITH_TLS_GONE as u16);
            lsh2.tls_gone_ops.fetch_add((after - before) as u64, Relaxed);
            let res = tw.res.into_inner();
            sh2.results.lock().unwrap().push(res);
        }));
    }
    let mut node = None;
    let mut begin = 0;
    for i in 0..nops {
        let op = ALLW[w.rng.weighted(&CHILD_W)];
        w.do_op(op);
        let now = arc_swap::verif::thread_node();
        if i == 0 || node.is_none() {
            if now.is_some() && node.is_none() {
                node = now;
                begin = w.stamp();
            }
        } else if now != node {
            report("C11", "node-changed", format!("the node of thread #{:x} changed from {:?} to {:?} during its life", uniq, node, now));
        }
        sched::step(hs::OP_GAP);
    }
    if let Some(n) = node {
        let end = w.stamp();
        lsh.own_log.lock().unwrap().push((n, uniq, begin, end));
    }
    // Exit with guards alive: they are handed over (or dropped) and outlive this thread.
    while let Some((_, h)) = w.guards.pop() {
        if w.rng.chance(2, 3) {
            sh.mailbox.lock().unwrap().push(h);
        } else {
            let g = crate::wl_core::release(h);
            w.call(false, || drop(g));
        }
    }
    while let Some(o) = w.owned.pop() {
        drop(crate::wl_core::disown(o));
    }
    // release the container handles without consuming the containers (the long-lived threads do that)
    w.conts.clear();
    let res = w.res.into_inner();
    sh.results.lock().unwrap().push(res);
    let _ = quiescent_check::<V, S>;
}

/// Directed scenario "node re-claim under a writer" (third-round seed C11p: the cooldown check read
/// the writer count before the node state). Scripted TOKEN schedule, fallback-only strategy,
/// containers a and b, three threads:
///
///   first (fresh thread): adopts node N, starts a.load(), stops before reading the storage;
///   newcomer (fresh thread): starts its first operation, walks the node list up to N and stops
///     right before looking at N's state;
///   writer: a.store(..): enters N, prepares a replacement for first's generation, stops before
///     its hand-over exchange;
///   first: finishes and exits (N goes into cooldown with the writer still inside);
///   newcomer: goes on - it must not get N - and starts b.load(), stops before reading the storage;
///   writer: finishes; newcomer: finishes - its load must return b's value.
///
/// Oracles: histories per container (a value of a must not come out of b), ledger, node invariants.
pub fn run_reclaim_under_writer<V: Val, S: StratExt<V>>(p: &Profile, exec_no: u64) -> ExecOut
where
    Guard<V, S>: Send,
{
    use arc_swap::verif::Site;
    use crate::wl_core::{FORCE_CONT, W};
    let nt = 3;
    let viol_before = crate::viol::count();
    let mut init_ids = Vec::new();
    let mut addr_of: HashMap<u64, u64> = HashMap::new();
    let mut conts: Vec<Cont<V, S>> = Vec::new();
    for _ in 0..2 {
        let v = V::fresh(crate::wl_core::id_block() + 1);
        init_ids.push(v.vid());
        addr_of.insert(v.vid(), v.addr() as u64);
        conts.push(Arc::new(ArcSwapAny::<V, S>::new(v)));
    }
    let sh = Arc::new(Shared::<V, S> {
        clock: AtomicU64::new(1),
        mailbox: Mutex::new(Vec::new()),
        b1: HBarrier::new(nt - 1),
        b2: HBarrier::new(nt - 1),
        results: Mutex::new(Vec::new()),
        fin: Mutex::new(Vec::new()),
        q1_done: AtomicBool::new(false),
        stop: AtomicBool::new(false),
        profile: {
            let mut p2 = p.clone();
            p2.none_p = 0;
            p2
        },
        exec_no,
        step_budget: 100_000,
    });
    sched::token_prepare(nt, exec_no, Strat::Script, false);
    // the rest of the script is appended by `first` once it knows where its node sits in the list
    sched::set_script(vec![(0, hs::USER)]);
    let desc = json!({"workload": "life/reclaim-under-writer", "value": V::NAME, "strategy": S::NAME, "exec_no": exec_no});
    runner::set_current(desc.clone());
    let same_node = Arc::new(AtomicBool::new(false));
    let reached = Arc::new(AtomicBool::new(false));
    let mut handles = Vec::new();
    for t in 0..nt {
        let conts2: Vec<Cont<V, S>> = conts.to_vec();
        let sh2 = sh.clone();
        let same_node = same_node.clone();
        let reached = reached.clone();
        handles.push(spawn_worker(t, 7000 + t as u64, move || {
            let mut w = Worker::<V, S> {
                t,
                rng: Rng::new(23 + t as u64),
                conts: conts2,
                sh: sh2.clone(),
                guards: Vec::new(),
                owned: Vec::new(),
                seen_addrs: Vec::new(),
                next_id: crate::wl_core::id_block(),
                res: RefCell::new(WorkerResult { t, ..Default::default() }),
                last_path: std::cell::Cell::new(0),
                budgets: std::cell::Cell::new((100_000, 100_000)),
                last_steps: std::cell::Cell::new(0),
                caches: Vec::new(),
                pending: RefCell::new(None),
            };
            match t {
                0 => {
                    FORCE_CONT.with(|f| f.set(Some(0)));
                    // adopt a node (a load on the fallback-only strategy uses no fast slot)
                    w.do_op(W::LoadDrop);
                    let mine = arc_swap::verif::thread_node();
                    let idx = arc_swap::verif::nodes().iter().position(|n| Some(n.addr) == mine).unwrap_or(0);
                    let mut script = vec![(0usize, hs::USER), (0, Site::FALLBACK_LOAD as u16)];
                    for _ in 0..=idx {
                        script.push((1, Site::COOLDOWN_CHECK as u16));
                    }
                    script.push((2, Site::HELP_CTRL_CAS as u16));
                    script.push((0, u16::MAX)); // first finishes and exits: its node goes into cooldown
                    // the newcomer's second load uses the generation of first's second load
                    script.push((1, Site::FALLBACK_LOAD as u16));
                    script.push((1, Site::FALLBACK_LOAD as u16));
                    script.push((2, hs::USER));
                    script.push((1, hs::USER));
                    sched::set_script(script);
                    N_OF_FIRST.store(mine.unwrap_or(0), SeqCst);
                    sched::step(hs::USER);
                    w.do_op(W::LoadDrop);
                    // exits without taking part in the end phase
                    w.conts.clear();
                    let res = w.res.into_inner();
                    sh2.results.lock().unwrap().push(res);
                    return;
                }
                1 => {
                    FORCE_CONT.with(|f| f.set(Some(1)));
                    w.do_op(W::LoadDrop);
                    same_node.store(arc_swap::verif::thread_node() == Some(N_OF_FIRST.load(SeqCst)), SeqCst);
                    w.do_op(W::LoadDrop);
                    reached.store(true, SeqCst);
                    sched::step(hs::USER);
                }
                _ => {
                    FORCE_CONT.with(|f| f.set(Some(0)));
                    w.do_op(W::Store);
                    sched::step(hs::USER);
                }
            }
            FORCE_CONT.with(|f| f.set(None));
            // the quiescent checks must not overlap with the exit of `first`
            while sched::status(0) != sched::ST_FINISHED {
                sched::yield_blocked();
            }
            sched::unblocked();
            end_phase(w, &sh2);
        }));
    }
    drop(conts);
    sched::token_start();
    let mut all_ok = true;
    for h in handles {
        if !matches!(h.join(), Ok(true)) {
            all_ok = false;
        }
    }
    if sched::script_completed() {
        runner::count("life.reclaim.script_completed", 1);
    } else {
        runner::count("life.reclaim.script_not_completed", 1);
    }
    if same_node.load(SeqCst) {
        // informational: what that leads to is judged by the histories (same generation, stale hand-over accepted)
        runner::count("life.reclaim.node_adopted_with_writer_inside", 1);
    }
    let _ = reached;
    let inn = unsafe { sched::inner() };
    let (trace_hash, steps) = (inn.trace_hash, inn.nsteps);
    analyze::<V, S>(p, &desc, &sh, all_ok, init_ids, addr_of, nt, 2, Mode::Token, false, viol_before, trace_hash, steps)
}

static N_OF_FIRST: std::sync::atomic::AtomicUsize = std::sync::atomic::AtomicUsize::new(0);
