//! Progress workload (C08, C09), TOKEN mode only.
//!
//! C08 (reads are wait-free): a victim thread that already used the crate performs loads while
//! holding g in {0, 7, 8, 9, 20} guards; every load must finish within `B_R` of the victim's own
//! step points whatever the others do: (a) others never run, (b) random interleaving, (c) an
//! adversary completes k in 1..3 whole writes after every single victim step, (d) at a random
//! moment every other thread is frozen at its current step point for good and the victim goes on
//! alone (possibly in the middle of a load).
//!
//! C09 (writers and guards never block): at a random global step every thread except the prober is
//! frozen at its current step point; the prober – a writer caught in the middle of whatever it
//! was doing, or a thread that has not used the crate yet – then runs one write operation of every
//! kind alone; each must finish within `B_W = 50 + 70 * #nodes` own steps counted from the freeze.
//!
//! The bound is enforced inside the step handler (exceeding it is reported and ends the process,
//! because such a call may never return); a token holder that stops reaching step points while
//! inside a crate call is classified by the watchdog (blocked / spinning => violation).

use std::cell::RefCell;
use std::collections::HashMap;
use std::sync::atomic::Ordering::*;
use std::sync::atomic::{AtomicBool, AtomicU64};
use std::sync::{Arc, Mutex};

use arc_swap::{ArcSwapAny, Guard};
use serde_json::json;

use crate::exec::{spawn_worker, Cont, HBarrier, StratExt};
use crate::runner;
use crate::sched::{self, hs, Mode, Strat};
use crate::tp::{self, Val};
use crate::util::Rng;
use crate::wl_core::{analyze, end_phase, id_block, ExecOut, Profile, Shared, Worker, WorkerResult, ALLW, NOPS, W};

pub const B_R: u32 = 64;

pub fn b_w() -> u32 {
    50 + 70 * arc_swap::verif::nodes().len().max(1) as u32
}

#[derive(Clone, Debug)]
pub struct ProgCfg {
    pub exec_no: u64,
    pub wseed: u64,
    pub sseed: u64,
    pub record: bool,
    /// 8 = C08 (victim reader), 9 = C09 (prober writer)
    pub prop: u8,
}

//                          Ld LdD LdF DrG GIn DrO  St  Sw Cas Rcu Snd Rcv StS Ver
const BG_WRITER: [u32; NOPS] = [1, 2, 1, 1, 0, 6, 25, 30, 12, 10, 0, 0, 2, 0];
const BG_READER: [u32; NOPS] = [30, 20, 10, 14, 3, 6, 0, 0, 0, 0, 0, 0, 0, 2];
const BG_MIXED: [u32; NOPS] = [15, 12, 6, 10, 3, 6, 10, 12, 8, 6, 0, 0, 2, 2];

pub fn run_prog<V: Val, S: StratExt<V>>(p: &Profile, cfg: &ProgCfg) -> ExecOut
where
    Guard<V, S>: Send,
{
    let mut rng = Rng::new(cfg.wseed);
    let nbg = rng.range(1, 3) as usize; // background threads
    // C08 "inherit": a short-lived thread fills the fast slots of its node with guards, hands them
    // over and exits; the victim then starts, adopts a node (possibly that one, all slots taken,
    // its own scan position still at the initial value) and measures its loads.
    let inherit = cfg.prop == 8 && rng.chance(1, 3);
    let early_exit = (cfg.prop == 9 && rng.chance(1, 2)) || inherit;
    let nt = 1 + nbg + early_exit as usize;
    let nc = rng.range(1, 2) as usize;
    let viol_before = crate::viol::count();
    sched::BUDGET_PROP.store(cfg.prop, Relaxed);

    let mut init_ids = Vec::new();
    let mut addr_of: HashMap<u64, u64> = HashMap::new();
    let mut conts: Vec<Cont<V, S>> = Vec::new();
    for _ in 0..nc {
        let v = V::fresh(id_block() + 1);
        init_ids.push(v.vid());
        addr_of.insert(v.vid(), v.addr() as u64);
        conts.push(Arc::new(ArcSwapAny::<V, S>::new(v)));
    }
    let sh = Arc::new(Shared::<V, S> {
        clock: AtomicU64::new(1),
        mailbox: Mutex::new(Vec::new()),
        b1: HBarrier::new(nt - early_exit as usize),
        b2: HBarrier::new(nt - early_exit as usize),
        results: Mutex::new(Vec::new()),
        fin: Mutex::new(Vec::new()),
        q1_done: AtomicBool::new(false),
        stop: AtomicBool::new(false),
        profile: {
            let mut p2 = p.clone();
            p2.max_guards = 24;
            p2
        },
        exec_no: cfg.exec_no,
        step_budget: 100_000,
    });
    // ---- scheduler: which of the four situations
    let mut srng = Rng::new(cfg.sseed);
    let situation = srng.below(4);
    let bg_ops = rng.range(6, 14) as usize;
    let est_steps = (nbg * bg_ops * 35) as u64;
    let (strat, freeze_at, sname) = match (cfg.prop, situation) {
        (8, 0) => (Strat::Pct { d: 0, horizon: 1 }, 0, "solo"),
        (8, 1) => (Strat::Random { sw: *srng.pick(&[2, 4, 8, 16]) }, 0, "random"),
        (8, 2) => (Strat::Adversary { victim: 0, k: srng.range(1, 3) as u32, p: 16 }, 0, "adversary"),
        (8, _) => (Strat::Random { sw: *srng.pick(&[4, 8, 16]) }, 1 + srng.below(est_steps.max(2)), "freeze"),
        (_, _) => (Strat::Random { sw: *srng.pick(&[2, 4, 8, 16]) }, 1 + srng.below(est_steps.max(2)), "freeze"),
    };
    sched::token_prepare(nt, cfg.sseed, strat.clone(), cfg.record);
    if let Strat::Pct { .. } = strat {
        // "solo": the victim has the highest priority and there are no change points
        let inn = unsafe { sched::inner() };
        inn.prio[0] = 10_000;
    }
    let freeze_budget = b_w() + 70 * nt as u32;
    if freeze_at != 0 && !inherit {
        sched::set_freeze(freeze_at, 0, cfg.prop == 9, freeze_budget);
    }
    let fresh_prober = cfg.prop == 9 && srng.chance(1, 3);
    let hold = *srng.pick(&[0usize, 0, 7, 8, 9, 20]);
    let desc = json!({"workload": "prog", "property": format!("C{:02}", cfg.prop), "value": V::NAME, "strategy": S::NAME, "exec_no": cfg.exec_no,
        "wseed": cfg.wseed, "sseed": cfg.sseed, "threads": nt, "containers": nc, "situation": sname, "sched": format!("{:?}", strat),
        "freeze_at_step": freeze_at, "guards_held_by_victim": hold, "fresh_prober": fresh_prober, "early_exiter": early_exit, "victim_inherits_node": inherit});
    runner::set_current(desc.clone());

    let mk_worker = {
        let sh = sh.clone();
        let conts = conts.clone();
        move |t: usize, seed: u64| Worker::<V, S> {
            t,
            rng: Rng::new(seed),
            conts: conts.to_vec(),
            sh: sh.clone(),
            guards: Vec::new(),
            owned: Vec::new(),
            seen_addrs: Vec::new(),
            next_id: id_block(),
            res: RefCell::new(WorkerResult { t, ..Default::default() }),
            last_path: std::cell::Cell::new(0),
            budgets: std::cell::Cell::new((100_000, 100_000)),
            last_steps: std::cell::Cell::new(0),
            caches: Vec::new(),
            pending: RefCell::new(None),
        }
    };
    let exiter = if early_exit { Some(nt - 1) } else { None };
    // "inherit": the background writers hold back until the victim has adopted its node (a write
    // would pay the debts the short-lived thread left in its slots)
    let victim_ready = Arc::new(AtomicBool::new(!inherit));
    let mut handles = Vec::new();
    // ---- victim / prober: thread 0
    {
        let mk = mk_worker.clone();
        let sh2 = sh.clone();
        let seed = rng.next();
        let prop = cfg.prop;
        let victim_ready = victim_ready.clone();
        handles.push(spawn_worker(0, seed, move || {
            let mut w = mk(0, seed);
            w.sh = sh2.clone();
            if prop == 8 {
                // The property speaks about a thread that has already used the crate.
                if inherit {
                    wait_gone(exiter);
                    runner::count("c08.inherit_execs", 1);
                    if freeze_at != 0 {
                        // the freeze must not catch the victim waiting for the short-lived thread
                        let now = unsafe { sched::inner() }.nsteps;
                        sched::set_freeze(now + 1 + freeze_at % 150, 0, false, freeze_budget);
                    }
                }
                if inherit && w.rng.chance(2, 3) {
                    // used the crate, but no fast slot yet: a write to a container of its own
                    let scratch = ArcSwapAny::<V, S>::new(V::fresh(id_block() + 1));
                    scratch.store(V::fresh(id_block() + 1));
                    drop(scratch);
                } else {
                    w.do_op(W::LoadDrop);
                }
                victim_ready.store(true, SeqCst);
                if inherit {
                    if let Some(me) = arc_swap::verif::thread_node() {
                        let full = arc_swap::verif::nodes().iter().any(|n| n.addr == me && n.fast.iter().all(|&x| x != arc_swap::verif::NO_DEBT));
                        runner::count(if full { "c08.inherited_node_all_slots_taken" } else { "c08.inherited_node_other" }, 1);
                    } else {
                        runner::count("c08.inherit_no_node", 1);
                    }
                }
                for _ in 0..hold {
                    w.do_op(W::Load);
                }
                let n = w.rng.range(6, 14);
                for _ in 0..n {
                    let op = *w.rng.pick(&[W::Load, W::LoadDrop, W::LoadDrop, W::LoadFull]);
                    w.budgets.set((B_R, 100_000));
                    if w.rng.chance(1, 6) {
                        // a read through a Cache is a load too (third-round seed C08p)
                        w.do_cache_load();
                        runner::count("c08.measured_cache_loads", 1);
                    } else {
                        w.do_op(op);
                    }
                    w.budgets.set((100_000, 100_000));
                    let steps = w.last_steps.get();
                    runner::maximum(&format!("c08.max_load_steps.{}", sname_static(situation, 8)), steps as u64);
                    runner::maximum(&format!("c08.max_load_steps.guards_{}", if hold >= 8 { "ge8" } else { "lt8" }), steps as u64);
                    runner::count("c08.measured_loads", 1);
                    runner::count(&format!("c08.loads.{}", sname_static(situation, 8)), 1);
                    if w.guards.len() > hold {
                        w.do_op(W::DropGuard);
                    }
                    sched::step(hs::OP_GAP);
                }
                if sched::is_solo() {
                    runner::count("c08.victim_ran_frozen", 1);
                    for (_, site) in sched::frozen_sites() {
                        runner::count(&format!("frozen_at.{}", sched::site_name(site)), 1);
                    }
                    sched::end_solo();
                }
                sched::cancel_freeze();
                sh2.stop.store(true, SeqCst);
            } else {
                if fresh_prober {
                    // Do not touch the crate before the freeze: the first operation then claims a node.
                    loop {
                        if sched::is_solo() || sched::others_all_idle() {
                            break;
                        }
                        sched::yield_blocked();
                    }
                    sched::unblocked();
                } else {
                    // A writer in the middle of its work when the freeze hits.
                    let n = w.rng.range(4, 12);
                    for _ in 0..n {
                        if sched::is_solo() {
                            break;
                        }
                        let op = ALLW[w.rng.weighted(&BG_WRITER)];
                        w.budgets.set((100_000, 100_000));
                        w.do_op(op);
                        sched::step(hs::OP_GAP);
                    }
                }
                // One write operation of every kind; alone if the freeze happened.
                let mut any_solo = false;
                for op in [W::Store, W::Swap, W::Cas, W::Rcu, W::LoadFull, W::DropOwned, W::Load, W::DropGuard, W::StoreShared] {
                    let solo = sched::is_solo();
                    any_solo |= solo;
                    let b = if solo { b_w() + 70 } else { 100_000 };
                    w.budgets.set((b, b));
                    w.do_op(op);
                    if solo {
                        runner::maximum(&format!("c09.max_probe_steps.{:?}", op), w.last_steps.get() as u64);
                        runner::count(&format!("c09.probe.{:?}", op), 1);
                    }
                }
                w.budgets.set((100_000, 100_000));
                let solo = any_solo;
                if solo {
                    runner::count("c09.probes_run_frozen", 1);
                    runner::count(if fresh_prober { "c09.fresh_prober" } else { "c09.midop_prober" }, 1);
                    for (_, site) in sched::frozen_sites() {
                        runner::count(&format!("frozen_at.{}", sched::site_name(site)), 1);
                    }
                    sched::end_solo();
                } else {
                    runner::count("c09.no_freeze", 1);
                }
                sched::cancel_freeze();
            }
            wait_gone(exiter);
            end_phase(w, &sh2);
        }));
    }
    // ---- background threads
    for b in 0..nbg {
        let t = 1 + b;
        let mk = mk_worker.clone();
        let sh2 = sh.clone();
        let seed = rng.next();
        let weights = match (cfg.prop, b) {
            (8, _) => BG_WRITER,
            (_, 0) => BG_READER,
            (_, 1) => BG_MIXED,
            _ => BG_WRITER,
        };
        let fill_guards = cfg.prop == 9 && b == 0 && rng.chance(1, 2);
        let prop = cfg.prop;
        let victim_ready = victim_ready.clone();
        handles.push(spawn_worker(t, seed, move || {
            let mut w = mk(t, seed);
            if !victim_ready.load(SeqCst) {
                while !victim_ready.load(SeqCst) {
                    sched::yield_blocked();
                }
                sched::unblocked();
            }
            if fill_guards {
                // a reader holding more guards than fast slots: its loads go through the fallback
                for _ in 0..9 {
                    w.do_op(W::Load);
                }
            }
            // C08: the writers must never run dry while the victim measures its loads (an adversary
            // with a finite supply of writes could only force a bounded number of retries).
            let n = if prop == 8 { 3000 } else { bg_ops };
            for i in 0..n {
                if prop == 8 && i >= bg_ops && sh2.stop.load(SeqCst) {
                    break;
                }
                let op = ALLW[w.rng.weighted(&weights)];
                w.do_op(op);
                // keep the bookkeeping of long runs small
                while w.owned.len() > 3 {
                    w.do_op(W::DropOwned);
                }
                sched::step(hs::OP_GAP);
            }
            wait_gone(exiter);
            end_phase(w, &sh2);
        }));
    }
    if early_exit {
        // A thread that uses the crate and exits early: its node cools down while others work.
        let t = nt - 1;
        let mk = mk_worker.clone();
        let sh2 = sh.clone();
        let seed = rng.next();
        handles.push(spawn_worker(t, seed, move || {
            let mut w = mk(t, seed);
            if inherit {
                let k = *w.rng.pick(&[8usize, 8, 8, 9, 6]);
                for _ in 0..k {
                    w.do_op(W::Load);
                }
                // hand the guards over (they outlive this thread; the end of the execution drops them)
                while let Some((_, h)) = w.guards.pop() {
                    sh2.mailbox.lock().unwrap().push(h);
                }
            } else {
                for _ in 0..3 {
                    let op = ALLW[w.rng.weighted(&BG_MIXED)];
                    w.do_op(op);
                }
            }
            while let Some((_, h)) = w.guards.pop() {
                let g = crate::wl_core::release(h);
                w.call(false, || drop(g));
            }
            while let Some(o) = w.owned.pop() {
                drop(crate::wl_core::disown(o));
            }
            w.conts.clear();
            let res = w.res.into_inner();
            sh2.results.lock().unwrap().push(res);
        }));
    }
    drop(mk_worker);
    drop(conts);
    sched::token_start();
    let mut all_ok = true;
    for h in handles {
        if !matches!(h.join(), Ok(true)) {
            all_ok = false;
        }
    }
    let left = std::mem::take(&mut *sh.mailbox.lock().unwrap());
    for h in left {
        drop(crate::wl_core::release(h));
    }
    let inn = unsafe { sched::inner() };
    let (trace_hash, steps) = (inn.trace_hash, inn.nsteps);
    runner::count(&format!("prog.situation.{}", sname), 1);
    runner::maximum("nodes", arc_swap::verif::nodes().len() as u64);
    let _ = tp::alloc_mode();
    analyze::<V, S>(p, &desc, &sh, all_ok, init_ids, addr_of, nt, nc, Mode::Token, cfg.record, viol_before, trace_hash, steps)
}

/// Wait (under the token) until participant `t` is completely gone, thread-local destructors
/// included; the quiescent checks of the end phase must not overlap with it.
fn wait_gone(t: Option<usize>) {
    if let Some(t) = t {
        while sched::status(t) != sched::ST_FINISHED {
            sched::yield_blocked();
        }
        sched::unblocked();
    }
}

fn sname_static(situation: u64, prop: u8) -> &'static str {
    match (prop, situation) {
        (8, 0) => "solo",
        (8, 1) => "random",
        (8, 2) => "adversary",
        _ => "freeze",
    }
}
