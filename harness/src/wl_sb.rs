//! Store-buffering litmus tests for Miri's weak-memory emulation (C03, C05, C06; round-2 seeds
//! C05x / C17y: a write operation whose exchange is weakened from `SeqCst` to `AcqRel`).
//!
//! The history checkers of the other workloads stamp calls and returns with SeqCst read-modify-writes
//! on one global counter; in Miri (and in the C++ model) those stamps *create* the happens-before
//! edge they are meant to observe, so "a load that starts after a completed store returns that value
//! or a later one" can never be seen to fail there. The classical shape that does not have this
//! problem is store buffering:
//!
//! ```text
//!   flag shape                                    two-container shape
//!   T1: write(x, B);  r1 = flag.load(SeqCst)      T1: write(x, B);  r1 = read(y)
//!   T2: flag.store(1, SeqCst);  r2 = read(x)      T2: write(y, C);  r2 = read(x)
//!   forbidden: r1 == 0 && r2 == old x             forbidden: r1 == old y && r2 == old x
//! ```
//!
//! In the flag shape r1 == 0 puts T1's completed write before T2's flag store, hence before T2's
//! load, in the single total order of SeqCst operations: the load started after the write had
//! returned. The two-container shape is the same argument with the containers themselves as the
//! flags (linearizability is compositional: two linearizable cells behave like two atomic cells
//! under one clock). The unchanged crate forbids both outcomes because every exchange of a write
//! and the confirming / fallback reads of a load are SeqCst (hand derivation in DESIGN 5/C03).
//! Values are unique per round, the threads share nothing but the containers and the flag.

use std::sync::atomic::{AtomicUsize, Ordering::SeqCst};
use std::sync::Arc;

use arc_swap::access::{Access, Map};
use arc_swap::{ArcSwapAny, Guard};

use crate::exec::StratExt;
use crate::tp::Val;

pub const WRITES: [&str; 4] = ["store", "swap", "cas", "rcu"];
pub const READS: [&str; 4] = ["load", "load_full", "load_slots_full", "map_load"];

fn write<V: Val, S: StratExt<V>>(c: &ArcSwapAny<V, S>, kind: usize, id: u64) {
    let v = V::fresh(id);
    match kind {
        0 => c.store(v),
        1 => drop(c.swap(v)),
        2 => {
            let cur = c.load_full();
            let prev = c.compare_and_swap(&cur, v);
            drop(prev);
        }
        _ => {
            let mut v = Some(v);
            drop(c.rcu(|_cur: &V| v.take().unwrap_or_else(|| V::fresh(id + 500_000))));
        }
    }
}

/// What a read needs set up before the litmus proper starts (more guards than fast slots).
fn pre_read<V: Val, S: StratExt<V>>(c: &ArcSwapAny<V, S>, kind: usize) -> Vec<Guard<V, S>> {
    if kind == 2 {
        (0..9).map(|_| c.load()).collect()
    } else {
        Vec::new()
    }
}

fn read<V: Val, S: StratExt<V>>(c: &ArcSwapAny<V, S>, kind: usize) -> u64 {
    match kind {
        1 => c.load_full().vid(),
        3 => {
            // through the Access machinery: a Map with the identity projection
            let m = Map::new(c, |v: &V| v);
            let g = m.load();
            g.vid()
        }
        _ => c.load().vid(),
    }
}

/// One round; returns a description of the forbidden outcome if it was observed.
pub fn round<V: Val, S: StratExt<V>>(shape: usize, wkind: usize, rkind: usize, round: u64) -> Option<String>
where
    Guard<V, S>: Send,
{
    let base = 10_000 * (round + 1);
    let (old_x, old_y, new_x, new_y) = (base + 1, base + 2, base + 3, base + 4);
    let x = Arc::new(ArcSwapAny::<V, S>::new(V::fresh(old_x)));
    let y = Arc::new(ArcSwapAny::<V, S>::new(V::fresh(old_y)));
    let flag = Arc::new(AtomicUsize::new(0));
    let t1 = {
        let (x, y, flag) = (x.clone(), y.clone(), flag.clone());
        std::thread::spawn(move || {
            let held = if shape == 1 { pre_read(&*y, rkind) } else { Vec::new() };
            write(&*x, wkind, new_x);
            let r1 = if shape == 0 { flag.load(SeqCst) as u64 } else { read(&*y, rkind) };
            drop(held);
            r1
        })
    };
    let t2 = {
        let (x, y, flag) = (x.clone(), y.clone(), flag.clone());
        std::thread::spawn(move || {
            let held = pre_read(&*x, rkind);
            if shape == 0 {
                flag.store(1, SeqCst);
            } else {
                write(&*y, wkind, new_y);
            }
            let r2 = read(&*x, rkind);
            drop(held);
            r2
        })
    };
    let r1 = t1.join().unwrap();
    let r2 = t2.join().unwrap();
    let first_unaware = if shape == 0 { r1 == 0 } else { r1 == old_y };
    if first_unaware && r2 == old_x {
        return Some(format!(
            "store buffering ({} shape): T1 completed {}(x, {}) and then {}; T2 {} and then {}(x) returned the replaced value {}",
            if shape == 0 { "flag" } else { "two-container" },
            WRITES[wkind], new_x,
            if shape == 0 { "read flag == 0".to_string() } else { format!("{}(y) returned the old value {}", READS[rkind], old_y) },
            if shape == 0 { "set the flag".to_string() } else { format!("completed {}(y, {})", WRITES[wkind], new_y) },
            READS[rkind], old_x
        ));
    }
    None
}
