//! Two containers of *different pointee kinds* sharing threads and (in reuse allocation mode) the
//! allocator (C12): a reader of container A (kind 1), a writer of A and a writer of B (kind 2). The
//! tracked pointer checks the kind tag on every `from_ptr` / dereference, so a reader of A that is
//! handed an object of B's kind is seen at once ("wrongly typed object without crashing").
//! TOKEN mode with the reader as the adversary's victim.

use std::sync::Arc;

use arc_swap::ArcSwapAny;
use serde_json::json;

use crate::exec::{node_invariants, spawn_worker, StratExt};
use crate::runner;
use crate::sched::{self, hs, Strat};
use crate::tp::{self, Tp, Val};
use crate::util::Rng;

type VA = Option<Tp<1>>;
type VB = Option<Tp<2>>;

pub fn run_exec<S: StratExt<VA> + StratExt<VB>>(seed: u64, sseed: u64, exec_no: u64) -> (usize, u64) {
    let mut rng = Rng::new(seed);
    let a = Arc::new(ArcSwapAny::<VA, S>::new(VA::fresh(crate::wl_core::id_block() + 1)));
    let b = Arc::new(ArcSwapAny::<VB, S>::new(VB::fresh(crate::wl_core::id_block() + 1)));
    let nops = rng.range(6, 14) as usize;
    let mut srng = Rng::new(sseed);
    let strat = match srng.below(3) {
        0 => if srng.chance(1, 2) { Strat::Random { sw: *srng.pick(&[2, 4, 8, 16]) } } else { Strat::Windows { p_in: 12, p_out: 1 } },
        _ => Strat::Adversary { victim: 0, k: srng.range(1, 3) as u32, p: *srng.pick(&[4, 8, 16]) },
    };
    sched::token_prepare(3, sseed, strat.clone(), false);
    let desc = json!({"workload": "dual", "strategy": <S as StratExt<VA>>::NAME, "exec_no": exec_no, "seed": seed, "sseed": sseed, "sched": format!("{:?}", strat),
        "alloc": format!("{:?}", tp::alloc_mode())});
    runner::set_current(desc.clone());
    let viol_before = crate::viol::count();
    let mut handles = Vec::new();
    {
        // reader of A (also holds a few guards so that both read paths occur)
        let a = a.clone();
        let s0 = rng.next();
        handles.push(spawn_worker(0, s0, move || {
            let mut rng = Rng::new(s0);
            let mut held = Vec::new();
            for _ in 0..nops {
                sched::take_marks(); // path markers per operation
                let g = a.load();
                let _ = g.vid(); // dereference: checks payload and kind tag
                if held.len() < 9 && rng.chance(1, 3) {
                    held.push(g);
                } else {
                    drop(g);
                    if !held.is_empty() && rng.chance(1, 4) {
                        held.swap_remove(rng.below(held.len() as u64) as usize);
                    }
                }
                sched::step(hs::OP_GAP);
                sched::op_done();
            }
            drop(held);
            drop(a);
        }));
    }
    {
        let a = a.clone();
        let s1 = rng.next();
        handles.push(spawn_worker(1, s1, move || {
            let base = crate::wl_core::id_block();
            for i in 0..nops {
                sched::take_marks();
                let old = a.swap(VA::fresh(base + i as u64 + 1));
                let _ = old.vid();
                drop(old);
                sched::step(hs::OP_GAP);
                sched::op_done();
            }
            drop(a);
        }));
    }
    {
        let b = b.clone();
        let s2 = rng.next();
        handles.push(spawn_worker(2, s2, move || {
            let base = crate::wl_core::id_block();
            for i in 0..nops {
                sched::take_marks();
                let old = b.swap(VB::fresh(base + i as u64 + 1));
                let _ = old.vid();
                drop(old);
                sched::step(hs::OP_GAP);
                sched::op_done();
            }
            drop(b);
        }));
    }
    sched::token_start();
    let mut ok = true;
    for h in handles {
        if !matches!(h.join(), Ok(true)) {
            ok = false;
        }
    }
    let trace = unsafe { sched::inner() }.trace_hash;
    drop(a);
    drop(b);
    if ok {
        let (_, _, problems) = node_invariants(true);
        for p in problems {
            crate::viol::report("C02", "node-not-quiescent", format!("{} (dual-kind workload)", p));
        }
        for leak in tp::end_epoch() {
            crate::viol::report("C02", "leak", format!("dual-kind workload: never destroyed: {}", leak));
        }
    } else {
        tp::end_epoch();
    }
    if crate::viol::count() != viol_before {
        // An execution in which the known mechanism D5 handed the reader an object of the other kind:
        // every later kind mismatch on that guard (dereference, conversion at drop) and the ensuing
        // count discrepancies are consequences of the same event and are folded into it. A kind
        // mismatch without that event stays an ordinary violation.
        let raw = crate::viol::take();
        let d5: Vec<_> = raw.iter().filter(|v| v.kind == "stale-debt-paid-by-foreign-writer-wrong-type").collect();
        if let Some(first) = d5.first() {
            let others = raw.iter().filter(|v| v.kind != "stale-debt-paid-by-foreign-writer-wrong-type").count();
            runner::violation(&first.prop, &first.kind, first.detail.clone(), &desc);
            runner::count("dual.consequences_folded_into_D5", others as u64);
        } else {
            for v in raw {
                runner::violation(&v.prop, &v.kind, v.detail, &desc);
            }
        }
    }
    (3 * nops, trace)
}
