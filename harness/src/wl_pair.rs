//! Systematic two-thread exploration (third-round seeds C01p / C02q / C10p: the writer helped a
//! node's owner only after scanning its slots; random schedules did not find the three-cut
//! interleaving that shows it within the quick budget).
//!
//! One reader operation against one writer operation on one container, every schedule of the shape
//!
//!   first thread runs i step points | second thread runs j step points | first to the end | second to the end
//!
//! and, for the reader on the helping path, of the shape
//!
//!   reader i | writer j | reader k more (k = 1..4, full: 1..12) | writer to the end | reader to the end
//!
//! for all i, j (measured from a solo run), both orders, on the default strategy with 0 and with 8
//! guards held by the reader (fast path / helping path) and on the fallback-only strategy. All core
//! oracles run on every execution (ledger, conservation law at the quiescent point, node
//! invariants, history linearizability): the reader keeps its guard until the writer has dropped
//! what it removed.

use std::cell::RefCell;
use std::collections::HashMap;
use std::sync::atomic::Ordering::*;
use std::sync::atomic::{AtomicBool, AtomicU64};
use std::sync::{Arc, Mutex};

use arc_swap::{ArcSwapAny, Guard};
use serde_json::json;

use crate::exec::{spawn_worker, Cont, HBarrier, StratExt};
use crate::runner;
use crate::sched::{self, hs, Mode, Strat};
use crate::tp::Val;
use crate::util::Rng;
use crate::wl_core::{analyze, end_phase, id_block, ExecOut, Profile, Shared, Worker, WorkerResult, W};

#[derive(Clone, Copy, Debug)]
pub struct PairCfg {
    pub exec_no: u64,
    /// guards the reader holds before the measured load
    pub hold: usize,
    pub rkind: W,
    pub wkind: W,
    /// which thread runs first (0 = reader, 1 = writer)
    pub first: usize,
    pub i: u64,
    pub j: u64,
    /// 0: two cuts (first i, second j, first to the end, second to the end); k > 0: three cuts
    /// (first i, second j, first k more, second to the end, first to the end)
    pub k: u64,
}

pub struct PairOut {
    pub out: ExecOut,
    /// step points of (reader, writer) in this execution, and of the reader's preparation
    pub steps: (u64, u64),
    pub prep: u64,
}

pub fn run_pair<V: Val, S: StratExt<V>>(p: &Profile, cfg: &PairCfg) -> PairOut
where
    Guard<V, S>: Send,
{
    let nt = 2;
    let viol_before = crate::viol::count();
    let v0 = V::fresh(id_block() + 1);
    let init_ids = vec![v0.vid()];
    let mut addr_of: HashMap<u64, u64> = HashMap::new();
    addr_of.insert(v0.vid(), v0.addr() as u64);
    let conts: Vec<Cont<V, S>> = vec![Arc::new(ArcSwapAny::<V, S>::new(v0))];
    let sh = Arc::new(Shared::<V, S> {
        clock: AtomicU64::new(1),
        mailbox: Mutex::new(Vec::new()),
        b1: HBarrier::new(nt),
        b2: HBarrier::new(nt),
        results: Mutex::new(Vec::new()),
        fin: Mutex::new(Vec::new()),
        q1_done: AtomicBool::new(false),
        stop: AtomicBool::new(false),
        profile: {
            let mut p2 = p.clone();
            p2.none_p = 0;
            p2.max_guards = 24;
            p2
        },
        exec_no: cfg.exec_no,
        step_budget: 100_000,
    });
    sched::token_prepare(nt, cfg.exec_no, Strat::Segments, false);
    let other = 1 - cfg.first;
    if cfg.k == 0 {
        sched::set_segments(vec![(cfg.first, cfg.i), (other, cfg.j), (cfg.first, u64::MAX), (other, u64::MAX)]);
    } else {
        sched::set_segments(vec![(cfg.first, cfg.i), (other, cfg.j), (cfg.first, cfg.k), (other, u64::MAX), (cfg.first, u64::MAX)]);
    }
    let desc = json!({"workload": "pair", "value": V::NAME, "strategy": S::NAME, "exec_no": cfg.exec_no, "reader_holds": cfg.hold, "read": format!("{:?}", cfg.rkind),
        "write": format!("{:?}", cfg.wkind), "schedule": if cfg.k == 0 {
            format!("thread {} runs {} step points, thread {} runs {}, then {} to the end, then {}", cfg.first, cfg.i, other, cfg.j, cfg.first, other)
        } else {
            format!("thread {} runs {} step points, thread {} runs {}, thread {} runs {} more, then {} to the end, then {}", cfg.first, cfg.i, other, cfg.j, cfg.first, cfg.k, other, cfg.first)
        }});
    runner::set_current(desc.clone());
    let prep = Arc::new(AtomicU64::new(0));
    let mut handles = Vec::new();
    for t in 0..nt {
        let conts2: Vec<Cont<V, S>> = conts.to_vec();
        let sh2 = sh.clone();
        let cfg = *cfg;
        let prep = prep.clone();
        handles.push(spawn_worker(t, 5000 + t as u64, move || {
            let mut w = Worker::<V, S> {
                t,
                rng: Rng::new(17 + t as u64),
                conts: conts2,
                sh: sh2.clone(),
                guards: Vec::new(),
                owned: Vec::new(),
                seen_addrs: Vec::new(),
                next_id: id_block(),
                res: RefCell::new(WorkerResult { t, ..Default::default() }),
                last_path: std::cell::Cell::new(0),
                budgets: std::cell::Cell::new((100_000, 100_000)),
                last_steps: std::cell::Cell::new(0),
                caches: Vec::new(),
                pending: RefCell::new(None),
            };
            if t == 0 {
                for _ in 0..cfg.hold {
                    w.do_op(W::Load);
                }
                prep.store(unsafe { sched::inner() }.steps_by[0], SeqCst);
                w.do_op(cfg.rkind);
                sched::step(hs::USER);
                // once more: what a load sees after the interference
                w.do_op(W::LoadDrop);
            } else {
                w.do_op(cfg.wkind);
                // give up whatever the write returned: the removed value dies here unless somebody protects it
                while !w.owned.is_empty() {
                    w.do_op(W::DropOwned);
                }
                sched::step(hs::USER);
            }
            end_phase(w, &sh2);
        }));
    }
    drop(conts);
    sched::token_start();
    let mut all_ok = true;
    for h in handles {
        if !matches!(h.join(), Ok(true)) {
            all_ok = false;
        }
    }
    let inn = unsafe { sched::inner() };
    let (trace_hash, steps) = (inn.trace_hash, inn.nsteps);
    let by = (inn.steps_by[0], inn.steps_by[1]);
    let out = analyze::<V, S>(p, &desc, &sh, all_ok, init_ids, addr_of, nt, 1, Mode::Token, false, viol_before, trace_hash, steps);
    PairOut { out, steps: by, prep: prep.load(SeqCst) }
}
