//! Violation reports raised by the monitors. A violation is always tied to the property whose
//! oracle fired; the runner attaches the execution (seeds / history) as the witness.

use std::sync::atomic::{AtomicUsize, Ordering};
use std::sync::Mutex;

#[derive(Clone, Debug, serde::Serialize)]
pub struct Violation {
    pub prop: String,
    pub kind: String,
    pub detail: String,
}

static COUNT: AtomicUsize = AtomicUsize::new(0);
/// Set once a panic escaped from crate code: the state of that execution is undefined from then
/// on, so what the other monitors see afterwards is not reported (only counted).
pub static POISONED: std::sync::atomic::AtomicBool = std::sync::atomic::AtomicBool::new(false);
pub static SUPPRESSED: AtomicUsize = AtomicUsize::new(0);
static VIOLS: Mutex<Vec<Violation>> = Mutex::new(Vec::new());

pub fn report(prop: &str, kind: &str, detail: String) {
    if POISONED.load(Ordering::Relaxed) && kind != "crate-panic" {
        SUPPRESSED.fetch_add(1, Ordering::Relaxed);
        return;
    }
    COUNT.fetch_add(1, Ordering::Relaxed);
    let mut v = VIOLS.lock().unwrap_or_else(|e| e.into_inner());
    if v.len() < 200 {
        v.push(Violation { prop: prop.to_string(), kind: kind.to_string(), detail });
    }
}

pub fn count() -> usize {
    COUNT.load(Ordering::Relaxed)
}

pub fn take() -> Vec<Violation> {
    std::mem::take(&mut *VIOLS.lock().unwrap_or_else(|e| e.into_inner()))
}

pub fn peek() -> Vec<Violation> {
    VIOLS.lock().unwrap_or_else(|e| e.into_inner()).clone()
}
