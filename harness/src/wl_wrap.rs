//! Generation wrap-around workload (C13), fault-enumeration style: the thread-local transaction
//! counter of the slow read path is preset (hook) so that it wraps on each of the next 17 slow-path
//! loads in turn, in three situations – no writer at that moment, a writer helping exactly that
//! transaction, the wrap inside a writer's own nested replacement load – for both ways of reaching
//! the slow path (fallback-only strategy; default strategy with more guards held than fast
//! slots). Oracle: no call panics / aborts / hangs (panic hook, watchdog) and every core oracle
//! (ledger, conservation law, histories, node invariants) holds after the wrap. TOKEN mode.

use std::cell::RefCell;
use std::collections::HashMap;
use std::sync::atomic::Ordering::*;
use std::sync::atomic::{AtomicBool, AtomicU64};
use std::sync::{Arc, Mutex};

use arc_swap::{ArcSwapAny, Guard};
use serde_json::json;

use crate::exec::{spawn_worker, Cont, HBarrier, StratExt};
use crate::runner;
use crate::sched::{self, hs, Mode, Strat};
use crate::tp::Val;
use crate::util::Rng;
use crate::wl_core::{analyze, end_phase, id_block, ExecOut, Profile, Shared, Worker, WorkerResult, ALLW, NOPS, W};

#[derive(Clone, Debug)]
pub struct WrapCfg {
    pub exec_no: u64,
    pub wseed: u64,
    pub sseed: u64,
    pub record: bool,
    pub mode: Mode,
    /// the wrap falls on the (k+1)-th slow-path load after the preset
    pub k: u64,
    /// 0 = no writer, 1 = reader preset with concurrent writers (help), 2 = writer preset (nested load)
    pub situation: u8,
}

//                       Ld LdD LdF DrG GIn DrO  St  Sw Cas Rcu Snd Rcv StS Ver
const READER: [u32; NOPS] = [25, 30, 14, 10, 3, 6, 0, 0, 0, 0, 0, 0, 0, 2];
const WRITER: [u32; NOPS] = [3, 4, 2, 2, 1, 6, 25, 28, 12, 10, 0, 0, 2, 0];
const MIXED: [u32; NOPS] = [18, 18, 8, 10, 3, 6, 10, 10, 6, 5, 0, 0, 2, 2];

pub fn preset_for(k: u64) -> usize {
    // the counter moves in steps of 4 and the wrap is the step from MAX-3 to 0
    (usize::MAX - 3).wrapping_sub(4 * k as usize)
}

pub fn run_wrap<V: Val, S: StratExt<V>>(p: &Profile, cfg: &WrapCfg) -> ExecOut
where
    Guard<V, S>: Send,
{
    let mut rng = Rng::new(cfg.wseed);
    let nt = if cfg.situation == 0 { 1 } else { rng.range(2, 3) as usize };
    let nc = rng.range(1, 2) as usize;
    let viol_before = crate::viol::count();
    let mut init_ids = Vec::new();
    let mut addr_of: HashMap<u64, u64> = HashMap::new();
    let mut conts: Vec<Cont<V, S>> = Vec::new();
    for _ in 0..nc {
        let v = V::fresh(id_block() + 1);
        init_ids.push(v.vid());
        addr_of.insert(v.vid(), v.addr() as u64);
        conts.push(Arc::new(ArcSwapAny::<V, S>::new(v)));
    }
    let sh = Arc::new(Shared::<V, S> {
        clock: AtomicU64::new(1),
        mailbox: Mutex::new(Vec::new()),
        b1: HBarrier::new(nt),
        b2: HBarrier::new(nt),
        results: Mutex::new(Vec::new()),
        fin: Mutex::new(Vec::new()),
        q1_done: AtomicBool::new(false),
        stop: AtomicBool::new(false),
        profile: {
            let mut p2 = p.clone();
            p2.max_guards = 14;
            p2
        },
        exec_no: cfg.exec_no,
        step_budget: 100_000,
    });
    let strat = if cfg.mode == Mode::Token {
        let mut srng = Rng::new(cfg.sseed);
        let s = match (cfg.situation, srng.below(3)) {
            (0, _) => Strat::Random { sw: 0 },
            // the thread with the preset counter is the victim: whole writes land between its steps
            (1, 0) | (2, 0) => Strat::Adversary { victim: if cfg.situation == 1 { 0 } else { 1 }, k: srng.range(1, 2) as u32, p: *srng.pick(&[4, 8, 16]) },
            (_, 1) => Strat::Windows { p_in: *srng.pick(&[8, 12, 16]), p_out: *srng.pick(&[0, 1, 2]) },
            _ => Strat::Random { sw: *srng.pick(&[2, 4, 8, 16]) },
        };
        sched::token_prepare(nt, cfg.sseed, s.clone(), cfg.record);
        Some(s)
    } else {
        None
    };
    let preset = preset_for(cfg.k);
    let sit_name = ["no-writer", "reader-wraps-with-writers", "writer-wraps-in-nested-load"][cfg.situation as usize];
    let desc = json!({"workload": "wrap", "value": V::NAME, "strategy": S::NAME, "exec_no": cfg.exec_no, "wseed": cfg.wseed, "sseed": cfg.sseed,
        "mode": format!("{:?}", cfg.mode), "threads": nt, "containers": nc, "situation": sit_name,
        "preset": format!("{:#x}", preset), "wrap_on_slow_load": cfg.k + 1, "sched": format!("{:?}", strat)});
    runner::set_current(desc.clone());

    let mut handles = Vec::new();
    for t in 0..nt {
        let conts2: Vec<Cont<V, S>> = conts.to_vec();
        let sh2 = sh.clone();
        let seed = rng.next();
        // thread 0 is the (slow-path) reader, thread 1 a writer, thread 2 mixed
        let weights = match (t, cfg.situation) {
            (0, 0) => MIXED,
            (0, _) => READER,
            (1, _) => WRITER,
            _ => MIXED,
        };
        let gets_preset = (cfg.situation != 2 && t == 0) || (cfg.situation == 2 && t == 1);
        let nops = if cfg!(miri) {
            6 + 2 * cfg.k as usize
        } else if t == 0 {
            30 + 2 * cfg.k as usize
        } else {
            24 + cfg.k as usize
        };
        handles.push(spawn_worker(t, seed, move || {
            let mut w = Worker::<V, S> {
                t,
                rng: Rng::new(seed),
                conts: conts2,
                sh: sh2.clone(),
                guards: Vec::new(),
                owned: Vec::new(),
                seen_addrs: Vec::new(),
                next_id: id_block(),
                res: RefCell::new(WorkerResult { t, ..Default::default() }),
                last_path: std::cell::Cell::new(0),
                budgets: std::cell::Cell::new((100_000, 100_000)),
                last_steps: std::cell::Cell::new(0),
                caches: Vec::new(),
                pending: RefCell::new(None),
            };
            // make sure the slow path is used: hold more guards than there are fast slots
            if t == 0 && !S::NAME.starts_with("fallback") {
                for _ in 0..9 {
                    w.do_op(W::Load);
                }
            }
            if gets_preset {
                let ok = arc_swap::verif::set_thread_generation(preset);
                assert!(ok, "harness: cannot preset the generation");
            }
            let before = sched::site_hit_local(arc_swap::verif::Site::HELPING_WRAP as u16);
            for i in 0..nops {
                let mut op = ALLW[w.rng.weighted(&weights)];
                // keep the reader above the fast-slot capacity so that it stays on the slow path
                if t == 0 && !S::NAME.starts_with("fallback") && w.guards.len() <= 9 && matches!(op, W::DropGuard | W::GuardInto) {
                    op = W::LoadDrop;
                }
                w.do_op(op);
                sched::step(hs::OP_GAP);
                let _ = i;
            }
            let after = sched::site_hit_local(arc_swap::verif::Site::HELPING_WRAP as u16);
            if gets_preset {
                runner::count("wrap.wraps_executed", (after - before) as u64);
                if after == before {
                    runner::count("wrap.executions_without_wrap", 1);
                }
                let g = arc_swap::verif::thread_generation().unwrap_or(1);
                if after > before && g > (1 << 20) {
                    runner::count("wrap.generation_not_small_after_wrap", 1);
                }
            }
            end_phase(w, &sh2);
        }));
    }
    drop(conts);
    if cfg.mode == Mode::Token {
        sched::token_start();
    }
    let mut all_ok = true;
    for h in handles {
        if !matches!(h.join(), Ok(true)) {
            all_ok = false;
        }
    }
    let left = std::mem::take(&mut *sh.mailbox.lock().unwrap());
    for h in left {
        drop(crate::wl_core::release(h));
    }
    let (trace_hash, steps) = if cfg.mode == Mode::Token {
        let inn = unsafe { sched::inner() };
        (inn.trace_hash, inn.nsteps)
    } else {
        (0, 0)
    };
    runner::count(&format!("wrap.situation.{}", cfg.situation), 1);
    runner::count(&format!("wrap.preset_k.{:02}", cfg.k), 1);
    analyze::<V, S>(p, &desc, &sh, all_ok, init_ids, addr_of, nt, nc, cfg.mode, cfg.record, viol_before, trace_hash, steps)
}

/// Directed "full cycle" scenario (second-round seed C13y): after a wrap "all other guarantees
/// continue to hold", in particular a writer that is still holding a replacement prepared for
/// generation X of a reader must not get it accepted when that reader reaches X again one whole
/// cycle of its counter later. Scripted TOKEN schedule on the fallback-only strategy, three threads,
/// one container:
///
///   R: preset so that the wrap falls on its (k+1)-th load; load L1 publishes X, stops before
///      reading the storage;
///   W: store(v1): exchanged, walking, inside help() for R's X, parked at `park` (before its
///      hand-over CAS) – and stays inside R's node;
///   R: finishes L1 and performs k+1 more loads: the counter wraps;
///   W2: store(v2) completes;
///   R: counter preset *forward* to X-4 (stands for the usize::MAX/4 - k loads nobody can wait for:
///      within one cycle every value is reachable by loads alone, so this is a reachable state),
///      load L_last publishes X again, stops before reading the storage;
///   W: resumes; R: finishes L_last, which must return v2 (history checker).
pub fn run_full_cycle<V: Val, S: StratExt<V>>(p: &Profile, exec_no: u64, k: u64, park: u16) -> ExecOut
where
    Guard<V, S>: Send,
{
    use arc_swap::verif::Site;
    let nt = 3;
    let viol_before = crate::viol::count();
    let v0 = V::fresh(id_block() + 1);
    let init_ids = vec![v0.vid()];
    let mut addr_of: HashMap<u64, u64> = HashMap::new();
    addr_of.insert(v0.vid(), v0.addr() as u64);
    let conts: Vec<Cont<V, S>> = vec![Arc::new(ArcSwapAny::<V, S>::new(v0))];
    let sh = Arc::new(Shared::<V, S> {
        clock: AtomicU64::new(1),
        mailbox: Mutex::new(Vec::new()),
        b1: HBarrier::new(nt),
        b2: HBarrier::new(nt),
        results: Mutex::new(Vec::new()),
        fin: Mutex::new(Vec::new()),
        q1_done: AtomicBool::new(false),
        stop: AtomicBool::new(false),
        profile: {
            let mut p2 = p.clone();
            p2.none_p = 0;
            p2
        },
        exec_no,
        step_budget: 100_000,
    });
    sched::token_prepare(nt, exec_no, Strat::Script, false);
    let mut script = vec![(0usize, hs::USER), (0, Site::FALLBACK_LOAD as u16), (1, park)];
    for _ in 0..(k + 2) {
        script.push((0, hs::USER)); // L1 finishes, k+1 further loads
    }
    script.push((2, hs::USER)); // W2: a whole store
    script.push((0, Site::FALLBACK_LOAD as u16)); // L_last: X published again
    script.push((1, hs::USER)); // W: the rest of its store
    script.push((0, hs::USER)); // L_last finishes
    sched::set_script(script);
    let desc = json!({"workload": "wrap/full-cycle", "value": V::NAME, "strategy": S::NAME, "exec_no": exec_no, "wrap_on_slow_load": k + 1,
        "writer_parked_at": sched::site_name(park)});
    runner::set_current(desc.clone());
    let same_gen = Arc::new(AtomicBool::new(false));
    let mut handles = Vec::new();
    for t in 0..nt {
        let conts2: Vec<Cont<V, S>> = conts.to_vec();
        let sh2 = sh.clone();
        let same_gen = same_gen.clone();
        handles.push(spawn_worker(t, 3000 + t as u64, move || {
            let mut w = Worker::<V, S> {
                t,
                rng: Rng::new(91 + t as u64),
                conts: conts2,
                sh: sh2.clone(),
                guards: Vec::new(),
                owned: Vec::new(),
                seen_addrs: Vec::new(),
                next_id: id_block(),
                res: RefCell::new(WorkerResult { t, ..Default::default() }),
                last_path: std::cell::Cell::new(0),
                budgets: std::cell::Cell::new((100_000, 100_000)),
                last_steps: std::cell::Cell::new(0),
                caches: Vec::new(),
                pending: RefCell::new(None),
            };
            if t == 0 {
                // claim a node first, then preset
                w.do_op(W::LoadDrop);
                let ok = arc_swap::verif::set_thread_generation(preset_for(k));
                assert!(ok, "harness: cannot preset the generation");
                sched::step(hs::USER);
                w.do_op(W::LoadDrop); // L1
                let x = arc_swap::verif::thread_generation().expect("harness: generation");
                sched::step(hs::USER);
                for _ in 0..(k + 1) {
                    w.do_op(W::LoadDrop);
                    sched::step(hs::USER);
                }
                let now = arc_swap::verif::thread_generation().expect("harness: generation");
                if now < x.wrapping_sub(4) {
                    // forward only, never across the wrap
                    arc_swap::verif::set_thread_generation(x.wrapping_sub(4));
                    w.do_op(W::LoadDrop); // L_last
                    same_gen.store(arc_swap::verif::thread_generation() == Some(x), SeqCst);
                }
                sched::step(hs::USER);
            } else {
                w.do_op(W::Store);
                sched::step(hs::USER);
            }
            end_phase(w, &sh2);
        }));
    }
    drop(conts);
    sched::token_start();
    let mut all_ok = true;
    for h in handles {
        if !matches!(h.join(), Ok(true)) {
            all_ok = false;
        }
    }
    if sched::script_completed() && same_gen.load(SeqCst) {
        runner::count("wrap.full_cycle.script_completed", 1);
    } else {
        runner::count("wrap.full_cycle.script_not_completed", 1);
    }
    let inn = unsafe { sched::inner() };
    let (trace_hash, steps) = (inn.trace_hash, inn.nsteps);
    analyze::<V, S>(p, &desc, &sh, all_ok, init_ids, addr_of, nt, 1, Mode::Token, false, viol_before, trace_hash, steps)
}
