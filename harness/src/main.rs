//! asv: runtime-monitoring harness for arc-swap. See /verif/DESIGN.md.
//!
//! Usage: asv <workload> key=value ...   (one shard = one process; the driver runs many)

#![allow(deprecated, dead_code)]
#![allow(clippy::too_many_arguments, clippy::type_complexity)]

mod exec;
mod lin;
mod runner;
mod sched;
mod tp;
mod util;
mod viol;
mod wl_core;

use arc_swap::strategy::test_strategies::FillFastSlots;
use arc_swap::DefaultStrategy;
use serde_json::json;

use sched::Mode;
use tp::{AllocMode, Payload, Tp};
use util::Args;

fn main() {
    let args = Args::parse();
    let out = args.str("out", "-");
    let params = serde_json::to_value(&args.kv).unwrap();
    runner::init(&args.cmd, params, &out);
    sched::install();
    let code = match args.cmd.as_str() {
        "core" => cmd_core(&args),
        "selftest" => cmd_selftest(&args),
        other => {
            eprintln!("unknown workload '{}'", other);
            2
        }
    };
    let fin = runner::finish();
    let harness_panics = runner::HARNESS_PANICS.load(std::sync::atomic::Ordering::Relaxed);
    if harness_panics > 0 {
        eprintln!("HARNESS-ERROR: {} panic(s) in harness code", harness_panics);
        std::process::exit(4);
    }
    std::process::exit(if code != 0 { code } else { fin });
}

fn parse_alloc(s: &str) -> AllocMode {
    match s {
        "quarantine" => AllocMode::Quarantine,
        "reuse" => AllocMode::Reuse,
        "real" => AllocMode::Real,
        _ => panic!("alloc=quarantine|reuse|real"),
    }
}

/// Core concurrent workload. Keys: profile, mode=token|free, execs, secs, seed, shard, alloc,
/// val=tp|arc, strat=default|fill|both, budget.
fn cmd_core(a: &Args) -> i32 {
    let p = wl_core::profile(&a.str("profile", "c01"));
    let mode = match a.str("mode", "token").as_str() {
        "token" => Mode::Token,
        "free" => Mode::Free,
        _ => panic!("mode=token|free"),
    };
    let mut p = p;
    if let Some(v) = a.get("threads") {
        p.max_threads = v.parse().unwrap();
        p.min_threads = p.min_threads.min(p.max_threads);
    }
    if let Some(v) = a.get("ops_hi") {
        p.ops_hi = v.parse().unwrap();
        p.ops_lo = p.ops_lo.min(p.ops_hi);
    }
    if let Some(v) = a.get("ops_lo") {
        p.ops_lo = v.parse().unwrap();
    }
    let alloc = parse_alloc(&a.str("alloc", "quarantine"));
    tp::set_alloc_mode(alloc);
    sched::set_mode(mode);
    sched::set_free_intensity(a.u64("intensity", 24) as u32);
    let execs = a.u64("execs", 1000);
    let secs = a.u64("secs", 0);
    let seed = a.u64("seed", 1);
    let shard = a.u64("shard", 0);
    let val = a.str("val", "tp");
    let strat = a.str("strat", "both");
    let budget = a.u64("budget", 100_000) as u32;
    let replay_exec = a.get("replay_exec").map(|s| s.parse::<u64>().unwrap());
    runner::start_watchdog(a.u64("stall_s", 30));
    let t0 = std::time::Instant::now();
    let mut n = 0u64;
    let mut nontrivial_hashes = std::collections::HashSet::new();
    loop {
        if secs > 0 {
            if t0.elapsed().as_secs() >= secs {
                break;
            }
        } else if n >= execs {
            break;
        }
        // Replaying re-runs the shard from its start (the node list and thread bookkeeping of the
        // process are part of the state), recording the schedule of the requested execution only.
        let exec_no = shard * 10_000_000 + n + 1;
        let wseed = util::mix(seed.wrapping_mul(0x1000_0001), exec_no);
        let sseed = util::mix(wseed, 0x5EED);
        let cfg = wl_core::ExecCfg { exec_no, wseed, sseed, mode, record: replay_exec == Some(exec_no) || a.flag("record"), step_budget: budget };
        let use_fill = match strat.as_str() {
            "default" => false,
            "fill" => true,
            _ => exec_no % 2 == 0,
        };
        let o = match (val.as_str(), use_fill) {
            ("tp", false) => wl_core::run_exec::<Option<Tp<1>>, DefaultStrategy>(&p, &cfg),
            ("tp", true) => wl_core::run_exec::<Option<Tp<1>>, FillFastSlots>(&p, &cfg),
            ("arc", false) => wl_core::run_exec::<Option<std::sync::Arc<Payload>>, DefaultStrategy>(&p, &cfg),
            ("arc", true) => wl_core::run_exec::<Option<std::sync::Arc<Payload>>, FillFastSlots>(&p, &cfg),
            _ => panic!("val=tp|arc"),
        };
        n += 1;
        runner::with(|r| {
            r.execs += 1;
            r.ops += o.ops as u64;
            r.distinct.insert(o.trace_hash);
        });
        runner::count("steps", o.steps);
        if o.nontrivial {
            runner::count("execs.nontrivial", 1);
            nontrivial_hashes.insert(o.trace_hash);
        }
        if replay_exec == Some(exec_no) {
            break;
        }
        if replay_exec.is_none() && runner::with(|r| r.violations.len()) >= 5 {
            break;
        }
    }
    runner::count("distinct_nontrivial", nontrivial_hashes.len() as u64);
    if nontrivial_hashes.len() <= 40_000 {
        let hs: Vec<String> = nontrivial_hashes.iter().map(|h| format!("{:x}", h)).collect();
        runner::with(|r| {
            r.extra.insert("hashes".into(), json!(hs));
        });
    }
    if val == "arc" {
        let live = tp::ARC_LIVE.load(std::sync::atomic::Ordering::Relaxed);
        if live != 0 {
            runner::violation("C02", "arc-leak", format!("{} Arc payload(s) alive after everything was dropped", live), &json!({"workload": "core", "val": "arc", "seed": seed, "shard": shard}));
        }
    }
    if alloc == AllocMode::Real && val == "tp" {
        let live = tp::LIVE_OBJS.load(std::sync::atomic::Ordering::Relaxed);
        if live != 0 {
            runner::violation("C02", "leak", format!("{} tracked object(s) alive after everything was dropped (real allocation mode)", live), &json!({"workload": "core", "seed": seed, "shard": shard}));
        }
    }
    0
}

fn cmd_selftest(_a: &Args) -> i32 {
    0
}
