//! asv: runtime-monitoring harness for arc-swap. See /verif/DESIGN.md.
//!
//! Usage: asv <workload> key=value ...   (one shard = one process; the driver runs many)

#![allow(deprecated, dead_code)]
#![allow(clippy::too_many_arguments, clippy::type_complexity)]

mod exec;
mod fault;
mod lin;
mod runner;
mod sched;
mod tp;
mod util;
mod viol;
mod wl_access;
mod wl_cache;
mod wl_core;
mod wl_dual;
mod wl_kinds;
mod wl_life;
mod wl_pair;
mod wl_panic;
mod wl_prog;
mod wl_race;
mod wl_reent;
mod wl_sb;
mod wl_seq;
mod wl_serde;
mod wl_wrap;

use arc_swap::strategy::test_strategies::FillFastSlots;
use arc_swap::DefaultStrategy;
use serde_json::json;

use sched::Mode;
use tp::{AllocMode, Payload, Tp};
use util::Args;

fn main() {
    let args = Args::parse();
    let out = args.str("out", "-");
    let params = serde_json::to_value(&args.kv).unwrap();
    runner::init(&args.cmd, params, &out);
    sched::install();
    let code = match args.cmd.as_str() {
        "core" => cmd_core(&args),
        "race" => cmd_race(&args),
        "life" => cmd_life(&args),
        "seq" => cmd_seq(&args),
        "prog" => cmd_prog(&args),
        "wrap" => cmd_wrap(&args),
        "access" => cmd_access(&args),
        "serde" => cmd_serde(&args),
        "panic" => cmd_panic(&args),
        "dual" => cmd_dual(&args),
        "sb" => cmd_sb(&args),
        "pair" => cmd_pair(&args),
        "cache" => cmd_cache(&args),
        "reent" => {
            sched::set_mode(Mode::Off);
            let n = wl_reent::run();
            runner::with(|r| {
                r.execs = n;
                r.ops = n;
            });
            runner::count("reent.scenarios", n);
            runner::count("distinct_nontrivial", n);
            0
        }
        "kinds" => cmd_kinds(&args),
        "selftest" => cmd_selftest(&args),
        other => {
            eprintln!("unknown workload '{}'", other);
            2
        }
    };
    let fin = runner::finish();
    let harness_panics = runner::HARNESS_PANICS.load(std::sync::atomic::Ordering::Relaxed);
    if harness_panics > 0 {
        eprintln!("HARNESS-ERROR: {} panic(s) in harness code", harness_panics);
        std::process::exit(4);
    }
    std::process::exit(if code != 0 { code } else { fin });
}

fn parse_alloc(s: &str) -> AllocMode {
    match s {
        "quarantine" => AllocMode::Quarantine,
        "reuse" => AllocMode::Reuse,
        "real" => AllocMode::Real,
        _ => panic!("alloc=quarantine|reuse|real"),
    }
}

/// Core concurrent workload. Keys: profile, mode=token|free, execs, secs, seed, shard, alloc,
/// val=tp|arc, strat=default|fill|both, budget.
fn cmd_core(a: &Args) -> i32 {
    let p = wl_core::profile(&a.str("profile", "c01"));
    let mode = match a.str("mode", "token").as_str() {
        "token" => Mode::Token,
        "free" => Mode::Free,
        _ => panic!("mode=token|free"),
    };
    let mut p = p;
    if let Some(v) = a.get("threads") {
        p.max_threads = v.parse().unwrap();
        p.min_threads = p.min_threads.min(p.max_threads);
    }
    if let Some(v) = a.get("ops_hi") {
        p.ops_hi = v.parse().unwrap();
        p.ops_lo = p.ops_lo.min(p.ops_hi);
    }
    if let Some(v) = a.get("ops_lo") {
        p.ops_lo = v.parse().unwrap();
    }
    let alloc = parse_alloc(&a.str("alloc", "quarantine"));
    tp::set_alloc_mode(alloc);
    sched::set_mode(mode);
    sched::set_free_intensity(a.u64("intensity", 24) as u32);
    let execs = a.u64("execs", 1000);
    let secs = a.u64("secs", 0);
    let seed = a.u64("seed", 1);
    let shard = a.u64("shard", 0);
    let val = a.str("val", "tp");
    let strat = a.str("strat", "both");
    let budget = a.u64("budget", 100_000) as u32;
    let replay_exec = a.get("replay_exec").map(|s| s.parse::<u64>().unwrap());
    runner::start_watchdog(a.u64("stall_s", 30));
    let t0 = std::time::Instant::now();
    let mut n = 0u64;
    let mut nontrivial_hashes = std::collections::HashSet::new();
    loop {
        if secs > 0 {
            if t0.elapsed().as_secs() >= secs {
                break;
            }
        } else if n >= execs {
            break;
        }
        // Replaying re-runs the shard from its start (the node list and thread bookkeeping of the
        // process are part of the state), recording the schedule of the requested execution only.
        let exec_no = shard * 10_000_000 + n + 1;
        let wseed = util::mix(seed.wrapping_mul(0x1000_0001), exec_no);
        let sseed = util::mix(wseed, 0x5EED);
        let cfg = wl_core::ExecCfg { exec_no, wseed, sseed, mode, record: replay_exec == Some(exec_no) || a.flag("record"), step_budget: budget };
        let use_fill = match strat.as_str() {
            "default" => false,
            "fill" => true,
            _ => exec_no % 2 == 0,
        };
        if strat == "rwlock" && mode == Mode::Token {
            panic!("strat=rwlock runs in FREE mode only (a parked lock holder would block the token holder)");
        }
        let o = match (val.as_str(), use_fill) {
            // the lock-based reference strategy under real parallelism
            ("tp", _) if strat == "rwlock" => wl_core::run_exec::<Option<Tp<1>>, std::sync::RwLock<()>>(&p, &cfg),
            ("arc", _) if strat == "rwlock" => wl_core::run_exec::<Option<std::sync::Arc<Payload>>, std::sync::RwLock<()>>(&p, &cfg),
            ("tp", false) => wl_core::run_exec::<Option<Tp<1>>, DefaultStrategy>(&p, &cfg),
            ("tp", true) => wl_core::run_exec::<Option<Tp<1>>, FillFastSlots>(&p, &cfg),
            ("arc", false) => wl_core::run_exec::<Option<std::sync::Arc<Payload>>, DefaultStrategy>(&p, &cfg),
            ("arc", true) => wl_core::run_exec::<Option<std::sync::Arc<Payload>>, FillFastSlots>(&p, &cfg),
            ("weak", false) => wl_core::run_exec::<std::sync::Weak<Payload>, DefaultStrategy>(&p, &cfg),
            ("weak", true) => wl_core::run_exec::<std::sync::Weak<Payload>, FillFastSlots>(&p, &cfg),
            _ => panic!("val=tp|arc|weak"),
        };
        if val == "weak" {
            // a container of Weak does not keep its targets alive: once the keeper lets go, every
            // target must be destroyed although the execution's containers are long gone
            tp::weak_keeper_clear();
        }
        n += 1;
        runner::with(|r| {
            r.execs += 1;
            r.ops += o.ops as u64;
            r.distinct.insert(o.trace_hash);
        });
        runner::count("steps", o.steps);
        if o.nontrivial {
            runner::count("execs.nontrivial", 1);
            nontrivial_hashes.insert(o.trace_hash);
        }
        if replay_exec == Some(exec_no) {
            break;
        }
        if replay_exec.is_none() && runner::with(|r| r.violations.len()) >= 5 {
            break;
        }
    }
    runner::count("sched.livelock_breaks", sched::LIVELOCK_BREAKS.load(std::sync::atomic::Ordering::Relaxed));
    runner::count("distinct_nontrivial", nontrivial_hashes.len() as u64);
    if nontrivial_hashes.len() <= 40_000 {
        let hs: Vec<String> = nontrivial_hashes.iter().map(|h| format!("{:x}", h)).collect();
        runner::with(|r| {
            r.extra.insert("hashes".into(), json!(hs));
        });
    }
    if val == "arc" || val == "weak" {
        let live = tp::ARC_LIVE.load(std::sync::atomic::Ordering::Relaxed);
        if live != 0 {
            runner::violation("C02", "arc-leak", format!("{} Arc payload(s) alive after everything was dropped", live), &json!({"workload": "core", "val": val, "seed": seed, "shard": shard}));
        }
    }
    if alloc == AllocMode::Real && val == "tp" {
        let live = tp::LIVE_OBJS.load(std::sync::atomic::Ordering::Relaxed);
        if live != 0 {
            runner::violation("C02", "leak", format!("{} tracked object(s) alive after everything was dropped (real allocation mode)", live), &json!({"workload": "core", "seed": seed, "shard": shard}));
        }
    }
    0
}

/// Race-hunting workload (TSan / Miri / ASan): hb-silent, real allocation.
/// Keys: shape=a|b|c|d, val=tp|arc, secs | execs, ops, seed, shard, intensity.
fn cmd_race(a: &Args) -> i32 {
    tp::set_alloc_mode(AllocMode::Real);
    if a.flag("nohooks") {
        // weak-memory hunting under Miri: every extra atomic access dilutes the chance of a stale
        // read, so the step hook is not even installed
        arc_swap::verif::set_step_hook(None);
        sched::set_mode(Mode::Off);
    } else {
        sched::set_mode(Mode::Free);
    }
    sched::set_free_intensity(a.u64("intensity", if cfg!(miri) { 40 } else { 24 }) as u32);
    let seed = a.u64("seed", 1);
    let shard = a.u64("shard", 0);
    let secs = a.u64("secs", 0);
    let execs = a.u64("execs", 1);
    let val = a.str("val", "tp");
    if a.str("shape", "a") == "min" {
        // the variant is derived from the shard (= Miri seed index), so a seed range covers all of them
        let variant = a.u64("variant", shard);
        let fill = (variant / 9) % 2 == 1;
        let (loads, stores) = (a.usize("ops", 4), 3);
        let r = match (val.as_str(), fill) {
            ("tp", false) => wl_race::minimal::<Tp<1>, DefaultStrategy>(variant, loads, stores),
            ("tp", true) => wl_race::minimal::<Tp<1>, FillFastSlots>(variant, loads, stores),
            (_, false) => wl_race::minimal::<Option<std::sync::Arc<Payload>>, DefaultStrategy>(variant, loads, stores),
            (_, true) => wl_race::minimal::<Option<std::sync::Arc<Payload>>, FillFastSlots>(variant, loads, stores),
        };
        runner::with(|x| {
            x.execs += 1;
            x.ops += (loads + stores) as u64;
        });
        let _ = r;
        runner::count(&format!("race.min.variant.{:02}", variant % 18), 1);
        let live = if val == "tp" { tp::LIVE_OBJS.load(std::sync::atomic::Ordering::Relaxed) } else { tp::ARC_LIVE.load(std::sync::atomic::Ordering::Relaxed) };
        if live != 0 {
            runner::violation("C02", "leak", format!("{} value(s) alive after everything was dropped", live), &json!({"workload": "race/min", "variant": variant}));
        }
        return 0;
    }
    if a.str("shape", "a") == "reuse" {
        let rounds = a.usize("rounds", 8);
        let fill = shard % 2 == 1;
        let r = match (val.as_str(), fill) {
            ("tp", false) => wl_race::node_reuse::<Tp<1>, DefaultStrategy>(rounds),
            ("tp", true) => wl_race::node_reuse::<Tp<1>, FillFastSlots>(rounds),
            (_, false) => wl_race::node_reuse::<Option<std::sync::Arc<Payload>>, DefaultStrategy>(rounds),
            (_, true) => wl_race::node_reuse::<Option<std::sync::Arc<Payload>>, FillFastSlots>(rounds),
        };
        let _ = r;
        runner::with(|x| {
            x.execs += 1;
            x.ops += 2 * rounds as u64;
        });
        runner::collect_violations(&json!({"workload": "race/reuse", "val": val, "shard": shard}));
        let live = if val == "tp" { tp::LIVE_OBJS.load(std::sync::atomic::Ordering::Relaxed) } else { tp::ARC_LIVE.load(std::sync::atomic::Ordering::Relaxed) };
        if live != 0 && runner::with(|x| x.violations.is_empty()) {
            runner::violation("C02", "leak", format!("{} value(s) alive after everything was dropped", live), &json!({"workload": "race/reuse"}));
        }
        return 0;
    }
    let shapes: Vec<String> = a.str("shape", "a").split(',').map(|s| s.to_string()).collect();
    let ops = a.usize("ops", if cfg!(miri) { 10 } else { 5_000 });
    runner::start_watchdog(a.u64("stall_s", 600));
    let t0 = std::time::Instant::now();
    let mut n = 0u64;
    let mut total_loads = 0u64;
    loop {
        if secs > 0 {
            if t0.elapsed().as_secs() >= secs {
                break;
            }
        } else if n >= execs {
            break;
        }
        let shape = &shapes[(n as usize + shard as usize) % shapes.len()];
        let (readers, writers, hold, fill, handoff, conts) = match shape.as_str() {
            // default strategy, short-lived guards: fast path, debt give-back vs. writer's walk
            "a" => (2, 1, 0, false, false, 1),
            // fallback-only strategy with two writers: helping hand-over
            "b" => (2, 2, 1, true, false, 1),
            // default strategy with more guards held than fast slots: fallback on the default strategy
            "c" => (1, 1, 10, false, false, 1),
            // compare-and-swap / rcu writers, full loads, guards handed to other threads, 2 containers
            "d" => (2, 2, 2, false, true, 2),
            // fallback-only, guards handed over, 2 containers
            "e" => (2, 1, 3, true, true, 2),
            // minimal: one reader with short-lived guards, one writer (stale-read hunting under Miri)
            "f" => (1, 1, 0, false, false, 1),
            "g" => (1, 1, 0, true, false, 1),
            other => panic!("unknown shape {}", other),
        };
        let scale = if cfg!(miri) { 1 } else { a.usize("scale", 2) };
        let cfg = wl_race::RaceCfg {
            readers: a.usize("readers", readers * scale),
            writers: a.usize("writers", writers * if cfg!(miri) { 1 } else { scale.min(2) }),
            ops,
            hold,
            seed: util::mix(seed.wrapping_mul(77), shard * 1_000_000 + n),
            handoff,
            conts,
        };
        runner::set_current(json!({"workload": "race", "shape": shape, "val": val, "seed": seed, "shard": shard, "n": n, "cfg": format!("{:?}", cfg)}));
        let (loads, _reads) = match (val.as_str(), fill) {
            ("tp", false) => wl_race::run::<Tp<1>, DefaultStrategy>(&cfg),
            ("tp", true) => wl_race::run::<Tp<1>, FillFastSlots>(&cfg),
            ("tpopt", false) => wl_race::run::<Option<Tp<1>>, DefaultStrategy>(&cfg),
            ("tpopt", true) => wl_race::run::<Option<Tp<1>>, FillFastSlots>(&cfg),
            ("arc", false) => wl_race::run::<Option<std::sync::Arc<Payload>>, DefaultStrategy>(&cfg),
            ("arc", true) => wl_race::run::<Option<std::sync::Arc<Payload>>, FillFastSlots>(&cfg),
            _ => panic!("val=tp|tpopt|arc"),
        };
        total_loads += loads;
        n += 1;
        // progress for the watchdog, from the controlling thread only (the workers stay hb-silent)
        sched::PROGRESS.fetch_add(1, std::sync::atomic::Ordering::Relaxed);
        runner::with(|r| {
            r.execs += 1;
            r.ops += loads;
        });
        runner::count(&format!("race.shape.{}", shape), 1);
        let (_n, _occ, problems) = exec::node_invariants(true);
        for pb in problems {
            runner::violation("C02", "node-not-quiescent", pb, &json!({"workload": "race", "shape": shape, "seed": seed, "shard": shard}));
        }
    }
    let _ = total_loads;
    let live = if val == "arc" { tp::ARC_LIVE.load(std::sync::atomic::Ordering::Relaxed) } else { tp::LIVE_OBJS.load(std::sync::atomic::Ordering::Relaxed) };
    if live != 0 {
        runner::violation("C02", "leak", format!("{} value(s) alive after everything was dropped", live), &json!({"workload": "race", "seed": seed, "shard": shard}));
    }
    0
}

/// Systematic two-thread exploration: every (i, j) two-cut schedule of one read against one write. Keys: full (all operation
/// kinds), alloc, shard / nshards (split of the configurations).
fn cmd_pair(a: &Args) -> i32 {
    use wl_core::W;
    let p = wl_core::profile("c01");
    tp::set_alloc_mode(parse_alloc(&a.str("alloc", "quarantine")));
    sched::set_mode(Mode::Token);
    runner::start_watchdog(a.u64("stall_s", 30));
    let shard = a.u64("shard", 0);
    let nshards = a.u64("nshards", 1);
    let full = a.flag("full");
    let reads: &[W] = if full { &[W::Load, W::LoadFull, W::LoadDrop] } else { &[W::Load] };
    let writes: &[W] = if full { &[W::Store, W::Swap, W::Cas, W::Rcu] } else { &[W::Swap, W::Cas] };
    // (fallback-only strategy?, guards held by the reader)
    let setups: &[(bool, usize)] = &[(false, 0), (false, 8), (true, 0)];
    let mut hashes = std::collections::HashSet::new();
    let mut n = 0u64;
    let mut cfgno = 0u64;
    let mut three = 0u64;
    for &(fill, hold) in setups {
        for &rkind in reads {
            for &wkind in writes {
                for first in 0..2usize {
                    cfgno += 1;
                    if cfgno % nshards != shard % nshards {
                        continue;
                    }
                    let run3 = |i: u64, j: u64, k: u64, n: u64| {
                        let cfg = wl_pair::PairCfg { exec_no: shard * 10_000_000 + n, hold, rkind, wkind, first, i, j, k };
                        if fill {
                            wl_pair::run_pair::<Option<Tp<1>>, FillFastSlots>(&p, &cfg)
                        } else {
                            wl_pair::run_pair::<Option<Tp<1>>, DefaultStrategy>(&p, &cfg)
                        }
                    };
                    let run = |i: u64, j: u64, n: u64| run3(i, j, 0, n);
                    // solo run: how many step points each thread makes, and where the reader's preparation ends
                    n += 1;
                    let solo = run(u64::MAX, u64::MAX, n);
                    let (n0, n1) = solo.steps;
                    let (lo_f, hi_f, hi_o) = if first == 0 { (solo.prep, n0, n1) } else { (0, n1, n0) };
                    let lo_o = if first == 0 { 0 } else { solo.prep };
                    for i in lo_f..=hi_f {
                        for j in lo_o..=hi_o {
                            n += 1;
                            let o = run(i, j, n);
                            hashes.insert(o.out.trace_hash);
                            runner::with(|r| {
                                r.execs += 1;
                                r.ops += o.out.ops as u64;
                            });
                            // three cuts: the reader (on the helping path) moves a few more steps before the writer finishes
                            if first == 0 && (fill || hold >= 8) && j > 0 {
                                for k in 1..=(if full { 12 } else { 4 }) {
                                    n += 1;
                                    three += 1;
                                    let o = run3(i, j, k, n);
                                    hashes.insert(o.out.trace_hash);
                                    runner::with(|r| {
                                        r.execs += 1;
                                        r.ops += o.out.ops as u64;
                                    });
                                }
                            }
                        }
                        if runner::with(|r| r.violations.len()) >= 5 {
                            break;
                        }
                    }
                    runner::count(&format!("pair.config.{}.hold{}.{:?}.{:?}.first{}", if fill { "fallback-only" } else { "default" }, hold, rkind, wkind, first), 1);
                }
            }
        }
    }
    runner::count("pair.schedules", n);
    runner::count("pair.schedules_with_three_cuts", three);
    runner::count("distinct_nontrivial", hashes.len() as u64);
    0
}

/// Every way of reading through a Cache (C16). Keys: execs (sequential programs), rounds (concurrent rounds), seed, shard.
fn cmd_cache(a: &Args) -> i32 {
    tp::set_alloc_mode(AllocMode::Real);
    sched::set_mode(if a.flag("nohooks") { Mode::Off } else { Mode::Free });
    let seed = a.u64("seed", 1);
    let shard = a.u64("shard", 0);
    let execs = a.u64("execs", 200);
    let rounds = a.u64("rounds", 10);
    let stores = a.u64("stores", if cfg!(miri) { 6 } else { 2000 });
    runner::start_watchdog(a.u64("stall_s", 120));
    let mut reads = 0u64;
    for n in 0..execs {
        let s = util::mix(seed.wrapping_mul(0x7000_0011), shard * 1_000_000 + n);
        reads += if n % 2 == 0 { wl_cache::sequential::<DefaultStrategy>(s) } else { wl_cache::sequential::<FillFastSlots>(s) };
        sched::PROGRESS.fetch_add(1, std::sync::atomic::Ordering::Relaxed);
        runner::with(|r| r.execs += 1);
        if runner::with(|r| r.violations.len()) + crate::viol::count() >= 5 {
            break;
        }
    }
    runner::count("cache.seq.reads_checked", reads);
    let mut creads = 0u64;
    for n in 0..rounds {
        let s = util::mix(seed.wrapping_mul(0x7000_0013), shard * 1_000_000 + n);
        creads += if n % 2 == 0 { wl_cache::concurrent::<DefaultStrategy>(s, stores, 3) } else { wl_cache::concurrent::<FillFastSlots>(s, stores, 3) };
        sched::PROGRESS.fetch_add(1, std::sync::atomic::Ordering::Relaxed);
        runner::with(|r| r.execs += 1);
    }
    runner::count("cache.concurrent.reads_checked", creads);
    runner::with(|r| r.ops += reads + creads);
    runner::count("distinct_nontrivial", execs + rounds);
    runner::collect_violations(&json!({"workload": "cache", "seed": seed, "shard": shard}));
    let live = tp::ARC_LIVE.load(std::sync::atomic::Ordering::Relaxed);
    if live != 0 {
        runner::violation("C02", "leak", format!("{} value(s) alive after everything was dropped", live), &json!({"workload": "cache", "seed": seed, "shard": shard}));
    }
    0
}

/// Store-buffering litmus (Miri): keys shard (selects shape / strategy / read flavour), rounds, val.
fn cmd_sb(a: &Args) -> i32 {
    tp::set_alloc_mode(AllocMode::Real);
    arc_swap::verif::set_step_hook(None);
    sched::set_mode(Mode::Off);
    let shard = a.u64("shard", 0);
    let rounds = a.u64("rounds", 3);
    let shape = a.usize("sbshape", (shard % 2) as usize);
    let fill = (shard / 2) % 2 == 1;
    let rkind = a.usize("read", ((shard / 4) % 4) as usize);
    let val = a.str("val", if (shard / 16) % 2 == 0 { "arc" } else { "tp" });
    let only_write = a.str("write", "all");
    let mut n = 0u64;
    for wkind in 0..4usize {
        if only_write != "all" && only_write != wl_sb::WRITES[wkind] {
            continue;
        }
        for r in 0..rounds {
            let rid = wkind as u64 * 100 + r;
            let out = match (val.as_str(), fill) {
                ("tp", false) => wl_sb::round::<Tp<1>, DefaultStrategy>(shape, wkind, rkind, rid),
                ("tp", true) => wl_sb::round::<Tp<1>, FillFastSlots>(shape, wkind, rkind, rid),
                (_, false) => wl_sb::round::<Option<std::sync::Arc<Payload>>, DefaultStrategy>(shape, wkind, rkind, rid),
                (_, true) => wl_sb::round::<Option<std::sync::Arc<Payload>>, FillFastSlots>(shape, wkind, rkind, rid),
            };
            n += 1;
            runner::count(&format!("sb.{}.{}.{}.{}", if shape == 0 { "flag" } else { "two" }, wl_sb::WRITES[wkind], wl_sb::READS[rkind], if fill { "fallback-only" } else { "default" }), 1);
            if let Some(d) = out {
                let prop = match wkind {
                    2 => "C05",
                    3 => "C06",
                    _ => "C03",
                };
                runner::violation(prop, "store-buffering", d, &json!({"workload": "sb", "shard": shard, "shape": shape, "write": wl_sb::WRITES[wkind], "read": wl_sb::READS[rkind], "fill": fill, "val": val, "round": r}));
            }
        }
    }
    runner::with(|x| {
        x.execs += n;
        x.ops += n * 4;
    });
    runner::count("distinct_nontrivial", n);
    let live = if val == "tp" { tp::LIVE_OBJS.load(std::sync::atomic::Ordering::Relaxed) } else { tp::ARC_LIVE.load(std::sync::atomic::Ordering::Relaxed) };
    if live != 0 {
        runner::violation("C02", "leak", format!("{} value(s) alive after everything was dropped", live), &json!({"workload": "sb", "shard": shard}));
    }
    0
}

/// Thread-lifecycle workload (C10, C11). Keys as for `core`.
fn cmd_life(a: &Args) -> i32 {
    let mut p = wl_core::profile(&a.str("profile", "c10"));
    if a.flag("wide") {
        // up to 8 short-lived threads per round (peak 11 threads alive)
        p.max_threads = 11;
    }
    let mode = match a.str("mode", "token").as_str() {
        "token" => Mode::Token,
        "free" => Mode::Free,
        _ => panic!("mode=token|free"),
    };
    let alloc = parse_alloc(&a.str("alloc", "quarantine"));
    tp::set_alloc_mode(alloc);
    sched::set_mode(mode);
    sched::set_free_intensity(a.u64("intensity", 24) as u32);
    let execs = a.u64("execs", 500);
    let secs = a.u64("secs", 0);
    let seed = a.u64("seed", 1);
    let shard = a.u64("shard", 0);
    let val = a.str("val", "tp");
    let strat = a.str("strat", "both");
    let budget = a.u64("budget", 100_000) as u32;
    let replay_exec = a.get("replay_exec").map(|s| s.parse::<u64>().unwrap());
    runner::start_watchdog(a.u64("stall_s", 30));
    let t0 = std::time::Instant::now();
    let mut n = 0u64;
    let mut hashes = std::collections::HashSet::new();
    loop {
        if secs > 0 {
            if t0.elapsed().as_secs() >= secs {
                break;
            }
        } else if n >= execs {
            break;
        }
        let exec_no = shard * 10_000_000 + n + 1;
        let wseed = util::mix(seed.wrapping_mul(0x2000_0003), exec_no);
        let sseed = util::mix(wseed, 0x5EED);
        let cfg = wl_life::LifeCfg { exec_no, wseed, sseed, mode, record: replay_exec == Some(exec_no) || a.flag("record"), step_budget: budget };
        let use_fill = match strat.as_str() {
            "default" => false,
            "fill" => true,
            _ => exec_no % 2 == 0,
        };
        let o = match (val.as_str(), use_fill) {
            ("tp", false) => wl_life::run_life::<Option<Tp<1>>, DefaultStrategy>(&p, &cfg),
            ("tp", true) => wl_life::run_life::<Option<Tp<1>>, FillFastSlots>(&p, &cfg),
            ("arc", false) => wl_life::run_life::<Option<std::sync::Arc<Payload>>, DefaultStrategy>(&p, &cfg),
            ("arc", true) => wl_life::run_life::<Option<std::sync::Arc<Payload>>, FillFastSlots>(&p, &cfg),
            ("weak", false) => wl_life::run_life::<std::sync::Weak<Payload>, DefaultStrategy>(&p, &cfg),
            ("weak", true) => wl_life::run_life::<std::sync::Weak<Payload>, FillFastSlots>(&p, &cfg),
            _ => panic!("val=tp|arc|weak"),
        };
        if val == "weak" {
            tp::weak_keeper_clear();
        }
        if mode == Mode::Token && val == "tp" && n % 50 == 0 && replay_exec.is_none() {
            // directed: an exited thread's node must not be adopted while a writer from its previous ownership is inside
            let d = wl_life::run_reclaim_under_writer::<Option<Tp<1>>, FillFastSlots>(&p, exec_no + 5_000_000);
            runner::with(|r| {
                r.execs += 1;
                r.ops += d.ops as u64;
            });
        }
        n += 1;
        runner::with(|r| {
            r.execs += 1;
            r.ops += o.ops as u64;
            r.distinct.insert(o.trace_hash);
        });
        runner::count("steps", o.steps);
        if o.nontrivial {
            runner::count("execs.nontrivial", 1);
            hashes.insert(o.trace_hash);
        }
        if replay_exec == Some(exec_no) {
            break;
        }
        if replay_exec.is_none() && runner::with(|r| r.violations.len()) >= 5 {
            break;
        }
    }
    runner::count("distinct_nontrivial", hashes.len() as u64);
    if hashes.len() <= 40_000 {
        let hs: Vec<String> = hashes.iter().map(|h| format!("{:x}", h)).collect();
        runner::with(|r| {
            r.extra.insert("hashes".into(), json!(hs));
        });
    }
    if val == "arc" || val == "weak" {
        let live = tp::ARC_LIVE.load(std::sync::atomic::Ordering::Relaxed);
        if live != 0 {
            runner::violation("C02", "arc-leak", format!("{} Arc payload(s) alive after everything was dropped", live), &json!({"workload": "life", "seed": seed, "shard": shard}));
        }
    }
    if alloc == AllocMode::Real && val == "tp" {
        let live = tp::LIVE_OBJS.load(std::sync::atomic::Ordering::Relaxed);
        if live != 0 {
            runner::violation("C02", "leak", format!("{} tracked object(s) alive after everything was dropped", live), &json!({"workload": "life", "seed": seed, "shard": shard}));
        }
    }
    0
}

/// Progress workload (C08 / C09), TOKEN mode. Keys: prop=8|9, execs, seed, shard, strat, alloc.
fn cmd_prog(a: &Args) -> i32 {
    let p = wl_core::profile("c01");
    tp::set_alloc_mode(parse_alloc(&a.str("alloc", "quarantine")));
    sched::set_mode(Mode::Token);
    let prop = a.u64("prop", 8) as u8;
    let execs = a.u64("execs", 500);
    let seed = a.u64("seed", 1);
    let shard = a.u64("shard", 0);
    let strat = a.str("strat", "both");
    let replay_exec = a.get("replay_exec").map(|s| s.parse::<u64>().unwrap());
    runner::start_watchdog(a.u64("stall_s", 15));
    let mut hashes = std::collections::HashSet::new();
    for n in 0..execs {
        let exec_no = shard * 10_000_000 + n + 1;
        let wseed = util::mix(seed.wrapping_mul(0x4000_0007) ^ prop as u64, exec_no);
        let sseed = util::mix(wseed, 0x5EED);
        let cfg = wl_prog::ProgCfg { exec_no, wseed, sseed, record: replay_exec == Some(exec_no) || a.flag("record"), prop };
        let use_fill = match strat.as_str() {
            "default" => false,
            "fill" => true,
            _ => exec_no % 3 == 0,
        };
        let o = if use_fill { wl_prog::run_prog::<Option<Tp<1>>, FillFastSlots>(&p, &cfg) } else { wl_prog::run_prog::<Option<Tp<1>>, DefaultStrategy>(&p, &cfg) };
        runner::with(|r| {
            r.execs += 1;
            r.ops += o.ops as u64;
            r.distinct.insert(o.trace_hash);
        });
        runner::count("steps", o.steps);
        hashes.insert(o.trace_hash);
        if replay_exec == Some(exec_no) {
            break;
        }
        if replay_exec.is_none() && runner::with(|r| r.violations.len()) >= 5 {
            break;
        }
    }
    runner::count("distinct_nontrivial", hashes.len() as u64);
    if hashes.len() <= 40_000 {
        let hs: Vec<String> = hashes.iter().map(|h| format!("{:x}", h)).collect();
        runner::with(|r| {
            r.extra.insert("hashes".into(), json!(hs));
        });
    }
    0
}

/// Generation wrap-around (C13): all 17 presets x 3 situations x 2 strategies, `reps` seeds each.
fn cmd_wrap(a: &Args) -> i32 {
    let p = wl_core::profile("c01");
    tp::set_alloc_mode(parse_alloc(&a.str("alloc", "quarantine")));
    let mode = match a.str("mode", "token").as_str() {
        "token" => Mode::Token,
        "free" => Mode::Free,
        _ => panic!("mode=token|free"),
    };
    sched::set_mode(mode);
    let reps = a.u64("reps", 2);
    let seed = a.u64("seed", 1);
    let shard = a.u64("shard", 0);
    let nshards = a.u64("nshards", 1);
    let val = a.str("val", "tp");
    let only_k = a.get("k").map(|s| s.parse::<u64>().unwrap());
    let replay_exec = a.get("replay_exec").map(|s| s.parse::<u64>().unwrap());
    runner::start_watchdog(a.u64("stall_s", 15));
    let mut hashes = std::collections::HashSet::new();
    let mut n = 0u64;
    for rep in 0..reps {
        for k in 0..17u64 {
            for situation in 0..3u8 {
                for fill in [false, true] {
                    n += 1;
                    if n % nshards != shard % nshards {
                        continue;
                    }
                    if only_k.is_some() && only_k != Some(k) {
                        continue;
                    }
                    let exec_no = shard * 10_000_000 + n;
                    let wseed = util::mix(seed.wrapping_mul(0x5000_000B) ^ rep, exec_no);
                    let sseed = util::mix(wseed, 0x5EED);
                    let cfg = wl_wrap::WrapCfg { exec_no, wseed, sseed, record: replay_exec == Some(exec_no) || a.flag("record"), mode, k, situation };
                    let o = match (val.as_str(), fill) {
                        ("tp", false) => wl_wrap::run_wrap::<Option<Tp<1>>, DefaultStrategy>(&p, &cfg),
                        ("tp", true) => wl_wrap::run_wrap::<Option<Tp<1>>, FillFastSlots>(&p, &cfg),
                        ("arc", false) => wl_wrap::run_wrap::<Option<std::sync::Arc<Payload>>, DefaultStrategy>(&p, &cfg),
                        _ => wl_wrap::run_wrap::<Option<std::sync::Arc<Payload>>, FillFastSlots>(&p, &cfg),
                    };
                    runner::with(|r| {
                        r.execs += 1;
                        r.ops += o.ops as u64;
                    });
                    hashes.insert(util::mix(o.trace_hash, k << 8 | (situation as u64) << 1 | fill as u64));
                    runner::distinct_str(&format!("k{}s{}f{}", k, situation, fill));
                    if replay_exec == Some(exec_no) {
                        return 0;
                    }
                }
            }
        }
    }
    if mode == Mode::Token && val == "tp" && shard % nshards == 0 && only_k.is_none() && replay_exec.is_none() {
        // directed: a writer keeps a replacement across a whole cycle of the reader's counter
        use arc_swap::verif::Site;
        for k in 1..=4u64 {
            for park in [Site::HELP_REPLACEMENT, Site::HELP_SPACE_LOAD, Site::HELP_HANDOVER_STORE, Site::HELP_CTRL_CAS] {
                n += 1;
                let o = wl_wrap::run_full_cycle::<Option<Tp<1>>, FillFastSlots>(&p, shard * 10_000_000 + 5_000_000 + n, k, park as u16);
                runner::with(|r| {
                    r.execs += 1;
                    r.ops += o.ops as u64;
                });
                hashes.insert(util::mix(o.trace_hash, 0xFC00 | k << 4 | park as u64));
            }
        }
    }
    runner::count("distinct_nontrivial", hashes.len() as u64);
    runner::count("wrap.cells_distinct", runner::with(|r| r.distinct.len() as u64));
    runner::count("wrap.wraps_inside_nested_replacement_load", sched::WRAPS_IN_PAYALL.load(std::sync::atomic::Ordering::Relaxed));
    0
}

/// Access / Map projections (C17). Keys: mode, execs, seed, shard.
fn cmd_access(a: &Args) -> i32 {
    let mode = match a.str("mode", "token").as_str() {
        "token" => Mode::Token,
        "free" => Mode::Free,
        _ => panic!("mode=token|free"),
    };
    sched::set_mode(mode);
    sched::set_free_intensity(a.u64("intensity", 24) as u32);
    let execs = a.u64("execs", 500);
    let seed = a.u64("seed", 1);
    let shard = a.u64("shard", 0);
    runner::start_watchdog(a.u64("stall_s", 30));
    let mut hashes = std::collections::HashSet::new();
    for n in 0..execs {
        let exec_no = shard * 10_000_000 + n + 1;
        let wseed = util::mix(seed.wrapping_mul(0x6000_000D), exec_no);
        let sseed = util::mix(wseed, 0x5EED);
        let o = if mode == Mode::Free && exec_no % 5 == 0 {
            // the lock-based reference strategy (real parallelism only; a parked lock holder would block the token holder)
            runner::count("access.execs_rwlock", 1);
            wl_access::run_exec::<std::sync::RwLock<()>>(wseed, sseed, mode, exec_no)
        } else if exec_no % 2 == 0 {
            wl_access::run_exec::<FillFastSlots>(wseed, sseed, mode, exec_no)
        } else {
            wl_access::run_exec::<DefaultStrategy>(wseed, sseed, mode, exec_no)
        };
        runner::with(|r| {
            r.execs += 1;
            r.ops += o.ops as u64;
        });
        hashes.insert(o.trace_hash);
        if runner::with(|r| r.violations.len()) >= 5 {
            break;
        }
    }
    // sequential programs over an ArcSwapOption (Some / None stores under held projection guards)
    let prev_mode = sched::mode();
    sched::set_mode(Mode::Off);
    let nprog = a.u64("optprogs", if cfg!(miri) { 2 } else { (execs / 4).clamp(20, 5000) });
    let mut checked = 0;
    for n in 0..nprog {
        let s = util::mix(seed.wrapping_mul(0x6000_0011), shard * 1_000_000 + n);
        checked += if n % 2 == 0 { wl_access::option_program::<DefaultStrategy>(s) } else { wl_access::option_program::<FillFastSlots>(s) };
        checked += if n % 2 == 0 { wl_access::rc_program::<FillFastSlots>(s ^ 0x5555) } else { wl_access::rc_program::<DefaultStrategy>(s ^ 0x5555) };
    }
    sched::set_mode(prev_mode);
    runner::count("access.option_programs", nprog);
    runner::count("access.rc_programs", nprog);
    runner::count("access.option_program_guard_checks", checked);
    runner::count("distinct_nontrivial", hashes.len() as u64);
    let live = wl_access::ROOTS_LIVE.load(std::sync::atomic::Ordering::SeqCst);
    if live != 0 {
        runner::violation("C02", "leak", format!("{} root value(s) alive after everything was dropped", live), &json!({"workload": "access", "seed": seed, "shard": shard}));
    }
    0
}

/// serde transparency (C20). Keys: values, seed, shard.
fn cmd_serde(a: &Args) -> i32 {
    sched::set_mode(Mode::Off);
    let n = a.u64("values", 200);
    let seed = a.u64("seed", 1) * 1000 + a.u64("shard", 0);
    let rounds = a.u64("rounds", 0);
    if rounds > 0 {
        // serialization racing with stores, all three default-constructible strategies
        sched::set_mode(if a.flag("nohooks") { Mode::Off } else { Mode::Free });
        runner::start_watchdog(a.u64("stall_s", 300));
        let sers = wl_serde::run_concurrent(seed, rounds, a.u64("stores", if cfg!(miri) { 5 } else { 400 }));
        runner::count("serde.concurrent.serializations", sers);
        runner::count("serde.concurrent.rounds", 3 * rounds);
        sched::set_mode(Mode::Off);
    }
    let (vals, checks) = wl_serde::run(seed, n);
    runner::with(|r| {
        r.execs = vals + 3 * rounds;
        r.ops = checks;
    });
    runner::count("serde.values", vals);
    runner::count("serde.law_checks", checks);
    let d = runner::with(|r| r.distinct.len() as u64);
    runner::count("distinct_nontrivial", d);
    0
}

/// Panics in user code (C18): for each seeded execution a counting run, then one run per
/// (kind of user code, n-th invocation) up to `cap` per kind. Keys: mode=token|seq, execs, cap, seed, shard.
fn cmd_panic(a: &Args) -> i32 {
    let p = wl_core::profile("c01");
    tp::set_alloc_mode(parse_alloc(&a.str("alloc", "quarantine")));
    let mode = match a.str("mode", "token").as_str() {
        "token" => Mode::Token,
        "seq" => Mode::Off,
        _ => panic!("mode=token|seq"),
    };
    sched::set_mode(mode);
    let execs = a.u64("execs", 20);
    let cap = a.u64("cap", 8);
    let seed = a.u64("seed", 1);
    let shard = a.u64("shard", 0);
    let strat = a.str("strat", "both");
    runner::start_watchdog(a.u64("stall_s", 20));
    let mut distinct = std::collections::HashSet::new();
    let mut plans = 0u64;
    let mut fired = 0u64;
    for n in 0..execs {
        let exec_no = shard * 10_000_000 + n + 1;
        let wseed = util::mix(seed.wrapping_mul(0x7000_0011), exec_no);
        let sseed = util::mix(wseed, 0x5EED);
        let cfg = wl_panic::PanicCfg { exec_no, wseed, sseed, mode, record: false };
        let use_fill = match strat.as_str() {
            "default" => false,
            "fill" => true,
            _ => exec_no % 2 == 0,
        };
        let run = |plan: Option<(u8, u64)>| {
            if use_fill {
                wl_panic::run_exec::<FillFastSlots>(&p, &cfg, plan)
            } else {
                wl_panic::run_exec::<DefaultStrategy>(&p, &cfg, plan)
            }
        };
        let base = run(None);
        runner::with(|r| {
            r.execs += 1;
            r.ops += base.out.ops as u64;
        });
        for kind in 1..=4u8 {
            let cnt = base.counts[kind as usize];
            runner::count(&format!("panic.invocations.{}", fault::KIND_NAMES[kind as usize]), cnt);
            // spread the enumerated positions over the whole range when there are more than `cap`
            let positions: Vec<u64> = if cnt <= cap { (1..=cnt).collect() } else { (0..cap).map(|i| 1 + i * cnt / cap).collect() };
            for nth in positions {
                let o = run(Some((kind, nth)));
                plans += 1;
                runner::with(|r| {
                    r.execs += 1;
                    r.ops += o.out.ops as u64;
                });
                runner::count(&format!("panic.plans.{}", fault::KIND_NAMES[kind as usize]), 1);
                if o.injected {
                    fired += 1;
                    runner::count(&format!("panic.fired.{}", fault::KIND_NAMES[kind as usize]), 1);
                    if let Some(i) = fault::injection() {
                        if i.in_payall {
                            runner::count("panic.fired.inside_debt_walk", 1);
                        }
                    }
                    distinct.insert(util::mix(o.out.trace_hash, (kind as u64) << 32 | nth));
                }
                if o.caught == 0 && o.injected {
                    runner::count("panic.injected_but_not_caught_by_an_operation", 1);
                }
            }
        }
        if mode == Mode::Token && n % 8 == 0 {
            // directed scenario: destructor of a helper's rejected replacement inside the debt walk of a swap / compare_and_swap / rcu,
            // on the fallback-only strategy and on the default strategy with 8 guards held by the helped reader
            for (vi, w1op) in [wl_core::W::Swap, wl_core::W::Cas, wl_core::W::Rcu].into_iter().enumerate() {
                for default_strategy in [false, true] {
                    let run = |plan: Option<(u8, u64)>| {
                        if default_strategy {
                            wl_panic::directed_destructor_in_debt_walk_default(plan, exec_no, w1op)
                        } else {
                            wl_panic::directed_destructor_in_debt_walk(plan, exec_no, w1op)
                        }
                    };
                    let before = tp::DESTROY_IN_PAYALL.load(std::sync::atomic::Ordering::Relaxed);
                    let base = run(None);
                    let inside = tp::DESTROY_IN_PAYALL.load(std::sync::atomic::Ordering::Relaxed) - before;
                    runner::count(if default_strategy { "panic.directed.default.destructions_inside_debt_walk" } else { "panic.directed.destructions_inside_debt_walk" }, inside);
                    runner::count(&format!("panic.directed.destructions_inside_debt_walk.{:?}", w1op), inside);
                    let _ = vi;
                    for nth in 1..=base.counts[fault::K_DESTRUCTOR as usize] {
                        let o = run(Some((fault::K_DESTRUCTOR, nth)));
                        plans += 1;
                        runner::count(if default_strategy { "panic.plans.directed.default" } else { "panic.plans.directed" }, 1);
                        if o.injected {
                            fired += 1;
                            if let Some(i) = fault::injection() {
                                if i.in_payall {
                                    runner::count("panic.fired.inside_debt_walk", 1);
                                    if default_strategy {
                                        runner::count("panic.fired.inside_debt_walk.default_strategy", 1);
                                    }
                                }
                            }
                        }
                        runner::with(|r| r.execs += 1);
                    }
                }
            }
        }
        plans += wl_panic::access_scenarios(exec_no);
        runner::count("panic.plans.access_projection_and_constant", 5);
        if runner::with(|r| r.violations.len()) >= 200 {
            break;
        }
    }
    runner::count("panic.plans_total", plans);
    runner::count("panic.fired_total", fired);
    runner::count("distinct_nontrivial", distinct.len() as u64);
    0
}

/// Two containers of different pointee kinds (C12). Keys: execs, seed, shard, alloc.
fn cmd_dual(a: &Args) -> i32 {
    tp::set_alloc_mode(parse_alloc(&a.str("alloc", "reuse")));
    sched::set_mode(Mode::Token);
    let execs = a.u64("execs", 1000);
    let seed = a.u64("seed", 1);
    let shard = a.u64("shard", 0);
    runner::start_watchdog(a.u64("stall_s", 30));
    let mut hashes = std::collections::HashSet::new();
    for n in 0..execs {
        let exec_no = shard * 10_000_000 + n + 1;
        let wseed = util::mix(seed.wrapping_mul(0x8000_0013), exec_no);
        let sseed = util::mix(wseed, 0x5EED);
        let (ops, trace) = if exec_no % 2 == 0 {
            wl_dual::run_exec::<FillFastSlots>(wseed, sseed, exec_no)
        } else {
            wl_dual::run_exec::<DefaultStrategy>(wseed, sseed, exec_no)
        };
        runner::with(|r| {
            r.execs += 1;
            r.ops += ops as u64;
        });
        hashes.insert(trace);
    }
    runner::count("dual.executions", execs);
    runner::count("distinct_nontrivial", hashes.len() as u64);
    0
}

/// Sequential programs against the reference model under all three strategies (C14).
fn cmd_seq(a: &Args) -> i32 {
    let progs = a.u64("progs", 1000);
    let len = a.usize("len", 80);
    let seed = a.u64("seed", 1);
    let shard = a.u64("shard", 0);
    let val = a.str("val", "tp");
    tp::set_alloc_mode(if val == "tp" { parse_alloc(&a.str("alloc", "quarantine")) } else { AllocMode::Real });
    sched::set_mode(Mode::Off);
    let mut distinct = std::collections::HashSet::new();
    let mut steps = 0u64;
    for n in 0..progs {
        let pseed = util::mix(seed.wrapping_mul(0x3000_0005), shard * 10_000_000 + n);
        let l = 10 + (pseed % (len as u64 - 9)) as usize;
        let outs = if val == "tp" {
            let ledger = tp::alloc_mode() != AllocMode::Real;
            [
                wl_seq::run_program::<Option<Tp<1>>, DefaultStrategy>(pseed, l, ledger),
                wl_seq::run_program::<Option<Tp<1>>, FillFastSlots>(pseed, l, ledger),
                wl_seq::run_program::<Option<Tp<1>>, std::sync::RwLock<()>>(pseed, l, ledger),
            ]
        } else if val == "rc" && n % 2 == 1 {
            [
                wl_seq::run_program::<tp::RcPlain, DefaultStrategy>(pseed, l, false),
                wl_seq::run_program::<tp::RcPlain, FillFastSlots>(pseed, l, false),
                wl_seq::run_program::<tp::RcPlain, std::sync::RwLock<()>>(pseed, l, false),
            ]
        } else if val == "rc" {
            [
                wl_seq::run_program::<tp::RcOpt, DefaultStrategy>(pseed, l, false),
                wl_seq::run_program::<tp::RcOpt, FillFastSlots>(pseed, l, false),
                wl_seq::run_program::<tp::RcOpt, std::sync::RwLock<()>>(pseed, l, false),
            ]
        } else {
            [
                wl_seq::run_program::<Option<std::sync::Arc<Payload>>, DefaultStrategy>(pseed, l, false),
                wl_seq::run_program::<Option<std::sync::Arc<Payload>>, FillFastSlots>(pseed, l, false),
                wl_seq::run_program::<Option<std::sync::Arc<Payload>>, std::sync::RwLock<()>>(pseed, l, false),
            ]
        };
        let failed = outs.iter().any(|o| o.failed);
        if !failed && !(outs[0].hash == outs[1].hash && outs[1].hash == outs[2].hash) {
            runner::violation("C14", "strategies-disagree", format!("program seed {}: result hashes {:x} {:x} {:x} (default, fallback-only, rwlock)", pseed, outs[0].hash, outs[1].hash, outs[2].hash), &json!({"workload": "seq", "seed": pseed}));
        }
        steps += outs[0].steps as u64;
        if outs[0].steps >= 10 {
            distinct.insert(outs[0].hash ^ (outs[0].steps as u64) << 48);
        }
        runner::with(|r| {
            r.execs += 3;
            r.ops += outs.iter().map(|o| o.steps as u64).sum::<u64>();
        });
        if failed && runner::with(|r| r.violations.len()) >= 5 {
            break;
        }
    }
    runner::count("seq.programs", progs);
    runner::count("seq.steps_per_strategy", steps);
    runner::count("distinct_nontrivial", distinct.len() as u64);
    if val != "tp" {
        let live = tp::ARC_LIVE.load(std::sync::atomic::Ordering::Relaxed);
        if live != 0 {
            runner::violation("C02", "arc-leak", format!("{} Arc payload(s) alive after all sequential programs", live), &json!({"workload": "seq"}));
        }
    } else if tp::alloc_mode() == AllocMode::Real {
        let live = tp::LIVE_OBJS.load(std::sync::atomic::Ordering::Relaxed);
        if live != 0 {
            runner::violation("C02", "leak", format!("{} tracked object(s) alive after all sequential programs", live), &json!({"workload": "seq"}));
        }
    }
    0
}

/// Pointer-kind law grid (C15).
fn cmd_kinds(a: &Args) -> i32 {
    // step points counted (budget per container round trip), no perturbation
    sched::set_mode(Mode::Free);
    sched::set_free_intensity(0);
    sched::BUDGET_PROP.store(13, std::sync::atomic::Ordering::Relaxed);
    runner::start_watchdog(a.u64("stall_s", 20));
    let (cells, checks) = wl_kinds::run_grid();
    runner::with(|r| {
        r.execs = cells;
        r.ops = checks;
    });
    runner::count("kinds.cells", cells);
    runner::count("kinds.law_checks", checks);
    let d = runner::with(|r| r.distinct.len() as u64);
    runner::count("distinct_nontrivial", d);
    0
}

fn cmd_selftest(_a: &Args) -> i32 {
    0
}
