//! Operation histories of one pointer cell and their linearizability checker.
//!
//! Operations are recorded at the harness boundary: invocation stamp before the call, response
//! stamp after it returned, so every recorded window is a superset of the real one and the checker
//! can miss a violation but never invent one.
//!
//! The checker is a frontier search: each thread's operations are totally ordered, so a
//! configuration is (index of the next operation per thread, current value); an operation may be
//! linearized next iff no other pending operation responded before it was invoked and its
//! sequential precondition holds. Enabled reads are linearized greedily (sound: they do not change
//! the state). Visited configurations are memoised; a budget on visited configurations bounds the
//! search and its exhaustion is *inconclusive*.

use std::collections::{HashMap, HashSet};

pub const ANY: u64 = u64::MAX;
pub const PATH_FAST: u8 = 1;
pub const PATH_RETURNED: u8 = 2;
pub const PATH_PREPAID: u8 = 4;
pub const PATH_FB_CONFIRMED: u8 = 8;
pub const PATH_FB_HELPED: u8 = 16;
pub const OPEN: u64 = u64::MAX;

#[derive(Copy, Clone, Debug, PartialEq, Eq, serde::Serialize, serde::Deserialize)]
pub enum Kind {
    /// `ret` = id loaded.
    Load,
    /// `a` = id stored.
    Store,
    /// `a` = id stored, `ret` = id returned.
    Swap,
    /// `a` = new id, `cur_addr` = expected address, `ret`/`ret_addr` = what came back.
    Cas,
}

#[derive(Copy, Clone, Debug, serde::Serialize, serde::Deserialize)]
pub struct Op {
    pub t: u8,
    pub c: u8,
    pub kind: Kind,
    pub a: u64,
    pub cur_addr: u64,
    pub ret: u64,
    pub ret_addr: u64,
    pub inv: u64,
    pub resp: u64,
    /// Path flags of the load inside the call (PATH_*); not used by the checker.
    #[serde(default)]
    pub path: u8,
}

impl Op {
    pub fn brief(&self) -> String {
        match self.kind {
            Kind::Load => format!("t{} c{} load->{:x} [{},{}]", self.t, self.c, self.ret, self.inv, self.resp),
            Kind::Store => format!("t{} c{} store({:x}) [{},{}]", self.t, self.c, self.a, self.inv, self.resp),
            Kind::Swap => format!("t{} c{} swap({:x})->{:x} [{},{}]", self.t, self.c, self.a, self.ret, self.inv, self.resp),
            Kind::Cas => format!(
                "t{} c{} cas(cur@{:x},{:x})->{:x}@{:x} [{},{}]",
                self.t, self.c, self.cur_addr, self.a, self.ret, self.ret_addr, self.inv, self.resp
            ),
        }
    }
}

#[derive(Debug, Clone, PartialEq)]
pub enum Verdict {
    Ok,
    /// No linearization exists; the string describes the furthest configuration reached.
    Violation(String),
    Inconclusive(String),
}

/// Check the operations of ONE container. `threads[t]` = that thread's operations in program
/// order; `init` = initial value id; `fin` = value found in the container at the end (None = not
/// observed). `addr_of` maps value ids to the address they lived at (for compare-and-swap, which
/// compares addresses).
pub fn check(threads: &[Vec<Op>], init: u64, fin: Option<u64>, addr_of: &HashMap<u64, u64>, budget: usize) -> Verdict {
    let nt = threads.len();
    let total: usize = threads.iter().map(|v| v.len()).sum();
    if total == 0 {
        return match fin {
            Some(f) if f != init => Verdict::Violation(format!("no writes but final value {:x} != initial {:x}", f, init)),
            _ => Verdict::Ok,
        };
    }
    // Fast necessary condition with a readable message: every value returned was written here.
    let mut written: HashSet<u64> = HashSet::new();
    written.insert(init);
    for th in threads {
        for op in th {
            if matches!(op.kind, Kind::Store | Kind::Swap | Kind::Cas) {
                written.insert(op.a);
            }
        }
    }
    for th in threads {
        for op in th {
            if op.kind != Kind::Store && op.ret != ANY && !written.contains(&op.ret) {
                return Verdict::Violation(format!("{} returned a value never stored in this container", op.brief()));
            }
        }
    }

    let addr = |id: u64| -> u64 { *addr_of.get(&id).unwrap_or(&0) };
    let mut idx: Vec<u32> = vec![0; nt];
    let mut cur = init;
    let mut visited: HashSet<(Vec<u32>, u64)> = HashSet::new();
    // DFS stack of (thread chosen, previous cur, greedy reads taken after the choice)
    struct Frame {
        choice_from: usize, // next thread index to try at this configuration
        undo: Vec<(usize, u64)>, // ops applied to get from the parent configuration here (thread, previous cur)
    }
    let mut stack: Vec<Frame> = Vec::new();
    let mut best_done = 0usize;
    let mut best_desc = String::new();

    // Apply all enabled reads greedily; returns the list of applied (thread, prev cur).
    let greedy = |idx: &mut Vec<u32>, cur: u64| -> Vec<(usize, u64)> {
        let mut applied = Vec::new();
        loop {
            let mut progressed = false;
            let min_resp = min_resp_of(threads, idx);
            for t in 0..nt {
                while (idx[t] as usize) < threads[t].len() {
                    let op = &threads[t][idx[t] as usize];
                    let is_read = match op.kind {
                        Kind::Load => true,
                        // a failed compare-and-swap is a read
                        Kind::Cas => op.ret != ANY && op.ret_addr != op.cur_addr,
                        _ => false,
                    };
                    if is_read && op.ret == cur && op.inv < min_resp_excluding(threads, idx, t, min_resp) {
                        // For a failed CaS the stored address must differ from the expected one.
                        if op.kind == Kind::Cas && addr(cur) == op.cur_addr {
                            break;
                        }
                        idx[t] += 1;
                        applied.push((t, cur));
                        progressed = true;
                    } else {
                        break;
                    }
                }
            }
            if !progressed {
                break;
            }
        }
        applied
    };

    let root_undo = greedy(&mut idx, cur);
    stack.push(Frame { choice_from: 0, undo: root_undo });
    visited.insert((idx.clone(), cur));

    loop {
        let done: usize = idx.iter().map(|&i| i as usize).sum();
        if done > best_done || best_desc.is_empty() {
            best_done = done;
            best_desc = describe_front(threads, &idx, cur);
        }
        if done == total {
            match fin {
                Some(f) if f != cur => {
                    // This complete linearization ends in the wrong value; keep searching.
                }
                _ => return Verdict::Ok,
            }
        }
        if visited.len() > budget {
            return Verdict::Inconclusive(format!("budget of {} configurations exhausted ({} of {} ops linearized at best)", budget, best_done, total));
        }
        // Try the next candidate write at this configuration.
        let frame = stack.last_mut().unwrap();
        let mut advanced = false;
        let min_resp = min_resp_of(threads, &idx);
        let mut t = frame.choice_from;
        while t < nt {
            let i = idx[t] as usize;
            if i < threads[t].len() {
                let op = &threads[t][i];
                if op.inv < min_resp_excluding(threads, &idx, t, min_resp) {
                    // sequential precondition + effect
                    let next_cur = match op.kind {
                        Kind::Load => None, // handled greedily; if not enabled now it is not enabled
                        Kind::Store => Some(op.a),
                        Kind::Swap => {
                            if op.ret == ANY || op.ret == cur {
                                Some(op.a)
                            } else {
                                None
                            }
                        }
                        Kind::Cas => {
                            if op.ret == ANY {
                                // open operation: effect as decided by the state
                                if addr(cur) == op.cur_addr {
                                    Some(op.a)
                                } else {
                                    Some(cur)
                                }
                            } else if op.ret == cur && op.ret_addr == op.cur_addr && addr(cur) == op.cur_addr {
                                Some(op.a)
                            } else {
                                None
                            }
                        }
                    };
                    if let Some(nc) = next_cur {
                        let prev = cur;
                        idx[t] += 1;
                        cur = nc;
                        let mut undo = vec![(t, prev)];
                        let g = greedy(&mut idx, cur);
                        undo.extend(g);
                        if visited.insert((idx.clone(), cur)) {
                            frame.choice_from = t + 1;
                            stack.push(Frame { choice_from: 0, undo });
                            advanced = true;
                            break;
                        } else {
                            // already explored: undo
                            for (ut, _) in undo.iter().rev() {
                                idx[*ut] -= 1;
                            }
                            cur = prev;
                        }
                    }
                }
            }
            t += 1;
        }
        if advanced {
            continue;
        }
        // Backtrack.
        let frame = stack.pop().unwrap();
        if stack.is_empty() {
            return Verdict::Violation(format!(
                "no linearization: at best {} of {} operations could be ordered; stuck at {}",
                best_done, total, best_desc
            ));
        }
        let mut restored = cur;
        for (ut, prev) in frame.undo.iter().rev() {
            idx[*ut] -= 1;
            restored = *prev;
        }
        cur = restored;
    }
}

fn min_resp_of(threads: &[Vec<Op>], idx: &[u32]) -> (u64, usize, u64) {
    // (smallest resp, its thread, second smallest resp)
    let mut m1 = u64::MAX;
    let mut t1 = usize::MAX;
    let mut m2 = u64::MAX;
    for (t, th) in threads.iter().enumerate() {
        if let Some(op) = th.get(idx[t] as usize) {
            if op.resp < m1 {
                m2 = m1;
                m1 = op.resp;
                t1 = t;
            } else if op.resp < m2 {
                m2 = op.resp;
            }
        }
    }
    (m1, t1, m2)
}

#[inline]
fn min_resp_excluding(_threads: &[Vec<Op>], _idx: &[u32], t: usize, m: (u64, usize, u64)) -> u64 {
    if m.1 == t {
        m.2
    } else {
        m.0
    }
}

fn describe_front(threads: &[Vec<Op>], idx: &[u32], cur: u64) -> String {
    let mut s = format!("value={:x}; pending:", cur);
    for (t, th) in threads.iter().enumerate() {
        if let Some(op) = th.get(idx[t] as usize) {
            s.push_str(&format!(" [{}]", op.brief()));
        }
        let _ = t;
    }
    s
}

/// Histories with *open* operations (the call unwound with a panic, so it may or may not have taken
/// effect): an open operation has `ret == ANY` and `resp == u64::MAX`. Every subset of the open
/// operations is tried as "took effect"; the history is accepted if one subset linearizes.
pub fn check_open(threads: &[Vec<Op>], init: u64, fin: Option<u64>, addr_of: &HashMap<u64, u64>, budget: usize) -> Verdict {
    let open: Vec<(usize, usize)> = threads
        .iter()
        .enumerate()
        .flat_map(|(t, th)| th.iter().enumerate().filter(|(_, o)| o.ret == ANY && o.resp == u64::MAX).map(move |(i, _)| (t, i)))
        .collect();
    if open.is_empty() {
        return check(threads, init, fin, addr_of, budget);
    }
    if open.len() > 4 {
        return Verdict::Inconclusive(format!("{} open operations: too many subsets", open.len()));
    }
    let mut worst: Option<Verdict> = None;
    for mask in 0..(1u32 << open.len()) {
        let variant: Vec<Vec<Op>> = threads
            .iter()
            .enumerate()
            .map(|(t, th)| {
                th.iter()
                    .enumerate()
                    .filter(|(i, _)| match open.iter().position(|x| *x == (t, *i)) {
                        Some(k) => mask & (1 << k) != 0,
                        None => true,
                    })
                    .map(|(_, o)| *o)
                    .collect()
            })
            .collect();
        match check(&variant, init, fin, addr_of, budget) {
            Verdict::Ok => return Verdict::Ok,
            v @ Verdict::Inconclusive(_) => worst = Some(v),
            v @ Verdict::Violation(_) => {
                if worst.is_none() {
                    worst = Some(v)
                }
            }
        }
    }
    worst.unwrap()
}

/// Chain oracle (C04): with unique written values, every successful exchange (swap / successful
/// compare-and-swap) yields an immediate-predecessor edge `old -> new`. Edges must form
/// vertex-disjoint chains: a value is handed back at most once and succeeded at most once.
/// Returns (edges, error).
pub fn chain_check(ops: &[Op], init: u64) -> (usize, Option<String>) {
    let mut given_back: HashMap<u64, String> = HashMap::new();
    let mut succ_of: HashMap<u64, u64> = HashMap::new();
    let mut stored_cnt: HashMap<u64, u32> = HashMap::new();
    stored_cnt.insert(init, 1);
    for op in ops {
        if matches!(op.kind, Kind::Store | Kind::Swap) || (op.kind == Kind::Cas && op.ret_addr == op.cur_addr && op.ret != ANY) {
            *stored_cnt.entry(op.a).or_insert(0) += 1;
        }
    }
    let mut edges = 0;
    for op in ops {
        let success = match op.kind {
            Kind::Swap => op.ret != ANY,
            Kind::Cas => op.ret != ANY && op.ret_addr == op.cur_addr,
            _ => false,
        };
        if !success {
            continue;
        }
        // Only values that entered the container exactly once have a unique predecessor edge.
        if op.ret != 0 && stored_cnt.get(&op.ret).copied().unwrap_or(0) <= 1 {
            if let Some(prev) = given_back.insert(op.ret, op.brief()) {
                return (edges, Some(format!("value {:x} handed back twice: by [{}] and by [{}]", op.ret, prev, op.brief())));
            }
            if let Some(other) = succ_of.insert(op.ret, op.a) {
                return (edges, Some(format!("value {:x} has two successors {:x} and {:x}", op.ret, other, op.a)));
            }
        }
        edges += 1;
    }
    (edges, None)
}

#[cfg(test)]
mod tests {
    use super::*;

    fn op(t: u8, kind: Kind, a: u64, ret: u64, inv: u64, resp: u64) -> Op {
        Op { t, c: 0, kind, a, cur_addr: 0, ret, ret_addr: ret, inv, resp, path: 0 }
    }

    fn am() -> HashMap<u64, u64> {
        (0..100u64).map(|i| (i, i)).collect()
    }

    #[test]
    fn sequential_ok() {
        let h = vec![vec![op(0, Kind::Load, 0, 1, 1, 2), op(0, Kind::Store, 2, 0, 3, 4), op(0, Kind::Load, 0, 2, 5, 6)]];
        assert_eq!(check(&h, 1, Some(2), &am(), 1000), Verdict::Ok);
    }

    #[test]
    fn stale_read_after_store_completed() {
        // t0 stores 2 and returns at 4; t1 loads at [5,6] and still sees 1.
        let h = vec![vec![op(0, Kind::Store, 2, 0, 3, 4)], vec![op(1, Kind::Load, 0, 1, 5, 6)]];
        assert!(matches!(check(&h, 1, None, &am(), 1000), Verdict::Violation(_)));
    }

    #[test]
    fn overlapping_read_may_see_either() {
        let h = vec![vec![op(0, Kind::Store, 2, 0, 3, 8)], vec![op(1, Kind::Load, 0, 1, 5, 6)]];
        assert_eq!(check(&h, 1, None, &am(), 1000), Verdict::Ok);
        let h = vec![vec![op(0, Kind::Store, 2, 0, 3, 8)], vec![op(1, Kind::Load, 0, 2, 5, 6)]];
        assert_eq!(check(&h, 1, None, &am(), 1000), Verdict::Ok);
    }

    #[test]
    fn backwards_reads() {
        let h = vec![
            vec![op(0, Kind::Store, 2, 0, 1, 10)],
            vec![op(1, Kind::Load, 0, 2, 2, 3), op(1, Kind::Load, 0, 1, 4, 5)],
        ];
        assert!(matches!(check(&h, 1, None, &am(), 1000), Verdict::Violation(_)));
    }

    #[test]
    fn swap_chain() {
        let h = vec![vec![op(0, Kind::Swap, 2, 1, 1, 10)], vec![op(1, Kind::Swap, 3, 2, 2, 9)]];
        assert_eq!(check(&h, 1, Some(3), &am(), 1000), Verdict::Ok);
        let h = vec![vec![op(0, Kind::Swap, 2, 1, 1, 10)], vec![op(1, Kind::Swap, 3, 1, 2, 9)]];
        assert!(matches!(check(&h, 1, None, &am(), 1000), Verdict::Violation(_)));
        let ops: Vec<Op> = h.concat();
        assert!(chain_check(&ops, 1).1.is_some());
    }

    #[test]
    fn cas_semantics() {
        // success: expected addr 1 == stored addr 1
        let mut c = op(0, Kind::Cas, 5, 1, 1, 2);
        c.cur_addr = 1;
        let h = vec![vec![c, op(0, Kind::Load, 0, 5, 3, 4)]];
        assert_eq!(check(&h, 1, Some(5), &am(), 1000), Verdict::Ok);
        // claims failure (returns 1 but expected addr 7), then the value must be unchanged
        let mut c = op(0, Kind::Cas, 5, 1, 1, 2);
        c.cur_addr = 7;
        let h = vec![vec![c, op(0, Kind::Load, 0, 5, 3, 4)]];
        assert!(matches!(check(&h, 1, None, &am(), 1000), Verdict::Violation(_)));
        // returns something else than stored although addresses match -> must have replaced
        let mut c = op(0, Kind::Cas, 5, 1, 1, 2);
        c.cur_addr = 1;
        let h = vec![vec![c, op(0, Kind::Load, 0, 1, 3, 4)]];
        assert!(matches!(check(&h, 1, None, &am(), 1000), Verdict::Violation(_)));
    }

    #[test]
    fn final_value() {
        let h = vec![vec![op(0, Kind::Store, 2, 0, 1, 2)], vec![op(1, Kind::Store, 3, 0, 1, 2)]];
        assert_eq!(check(&h, 1, Some(2), &am(), 1000), Verdict::Ok);
        assert_eq!(check(&h, 1, Some(3), &am(), 1000), Verdict::Ok);
        assert!(matches!(check(&h, 1, Some(1), &am(), 1000), Verdict::Violation(_)));
    }

    /// Cross-check against brute force over all permutations on random small histories.
    #[test]
    fn cross_check_bruteforce() {
        use crate::util::Rng;
        let mut rng = Rng::new(7);
        let mut agree = 0;
        let mut viols = 0;
        for _ in 0..3000 {
            let nt = 2 + rng.below(2) as usize;
            let mut threads: Vec<Vec<Op>> = vec![Vec::new(); nt];
            let mut clock = 1u64;
            let n = 3 + rng.below(4) as usize;
            // random overlapping windows
            let mut busy_until = vec![0u64; nt];
            for k in 0..n {
                let t = rng.below(nt as u64) as usize;
                let inv = clock.max(busy_until[t] + 1);
                let resp = inv + 1 + rng.below(6);
                clock += 1 + rng.below(2);
                busy_until[t] = resp;
                let kind = match rng.below(3) {
                    0 => Kind::Load,
                    1 => Kind::Store,
                    _ => Kind::Swap,
                };
                let a = 10 + k as u64;
                let ret = if rng.chance(1, 2) { 1 } else { 10 + rng.below(n as u64) };
                threads[t].push(Op { t: t as u8, c: 0, kind, a, cur_addr: 0, ret, ret_addr: ret, inv: inv * 2, resp: resp * 2 + 1, path: 0 });
            }
            let v = check(&threads, 1, None, &am(), 100000);
            let b = brute(&threads, 1);
            match (&v, b) {
                (Verdict::Ok, true) => agree += 1,
                (Verdict::Violation(_), false) => {
                    agree += 1;
                    viols += 1
                }
                _ => panic!("disagreement on {:?}: checker {:?}, brute {}", threads, v, b),
            }
        }
        assert!(agree == 3000 && viols > 100, "agree={} viols={}", agree, viols);
    }

    fn brute(threads: &[Vec<Op>], init: u64) -> bool {
        let all: Vec<Op> = threads.concat();
        let n = all.len();
        let mut perm: Vec<usize> = (0..n).collect();
        fn rec(all: &[Op], perm: &mut Vec<usize>, k: usize, init: u64) -> bool {
            let n = all.len();
            if k == n {
                // real-time order
                for i in 0..n {
                    for j in i + 1..n {
                        if all[perm[j]].resp < all[perm[i]].inv {
                            return false;
                        }
                    }
                }
                let mut cur = init;
                for &p in perm.iter() {
                    let op = &all[p];
                    match op.kind {
                        Kind::Load => {
                            if op.ret != cur {
                                return false;
                            }
                        }
                        Kind::Store => cur = op.a,
                        Kind::Swap => {
                            if op.ret != cur {
                                return false;
                            }
                            cur = op.a
                        }
                        Kind::Cas => unreachable!(),
                    }
                }
                return true;
            }
            for i in k..n {
                perm.swap(k, i);
                if rec(all, perm, k + 1, init) {
                    return true;
                }
                perm.swap(k, i);
            }
            false
        }
        rec(&all, &mut perm, 0, init)
    }
}
