//! Small utilities: PRNG, argument parsing, hashing.

use std::collections::HashMap;

/// splitmix64 / xorshift style PRNG. Deterministic, no shared state.
#[derive(Clone, Debug)]
pub struct Rng(pub u64);

impl Rng {
    pub fn new(seed: u64) -> Self {
        let mut r = Rng(seed ^ 0x9E37_79B9_7F4A_7C15);
        r.next();
        r.next();
        r
    }
    #[inline]
    pub fn next(&mut self) -> u64 {
        // splitmix64
        self.0 = self.0.wrapping_add(0x9E37_79B9_7F4A_7C15);
        let mut z = self.0;
        z = (z ^ (z >> 30)).wrapping_mul(0xBF58_476D_1CE4_E5B9);
        z = (z ^ (z >> 27)).wrapping_mul(0x94D0_49BB_1331_11EB);
        z ^ (z >> 31)
    }
    /// Uniform in 0..n (n > 0).
    #[inline]
    pub fn below(&mut self, n: u64) -> u64 {
        debug_assert!(n > 0);
        self.next() % n
    }
    #[inline]
    pub fn range(&mut self, lo: u64, hi_incl: u64) -> u64 {
        lo + self.below(hi_incl - lo + 1)
    }
    /// True with probability num/den.
    #[inline]
    pub fn chance(&mut self, num: u64, den: u64) -> bool {
        self.below(den) < num
    }
    pub fn pick<'a, T>(&mut self, xs: &'a [T]) -> &'a T {
        &xs[self.below(xs.len() as u64) as usize]
    }
    /// Weighted choice: returns the index.
    pub fn weighted(&mut self, w: &[u32]) -> usize {
        let total: u64 = w.iter().map(|&x| x as u64).sum();
        let mut x = self.below(total.max(1));
        for (i, &wi) in w.iter().enumerate() {
            if x < wi as u64 {
                return i;
            }
            x -= wi as u64;
        }
        w.len() - 1
    }
}

#[inline]
pub fn mix(h: u64, v: u64) -> u64 {
    let mut z = h ^ v.wrapping_mul(0x9E37_79B9_7F4A_7C15);
    z = (z ^ (z >> 29)).wrapping_mul(0xBF58_476D_1CE4_E5B9);
    z ^ (z >> 32)
}

/// `key=value` arguments.
#[derive(Clone, Debug, Default)]
pub struct Args {
    pub cmd: String,
    pub kv: HashMap<String, String>,
}

impl Args {
    pub fn parse() -> Args {
        let mut it = std::env::args().skip(1);
        let cmd = it.next().unwrap_or_default();
        let mut kv = HashMap::new();
        for a in it {
            if let Some((k, v)) = a.split_once('=') {
                kv.insert(k.to_string(), v.to_string());
            } else {
                kv.insert(a, "1".to_string());
            }
        }
        Args { cmd, kv }
    }
    pub fn get(&self, k: &str) -> Option<&str> {
        self.kv.get(k).map(|s| s.as_str())
    }
    pub fn str(&self, k: &str, d: &str) -> String {
        self.get(k).unwrap_or(d).to_string()
    }
    pub fn u64(&self, k: &str, d: u64) -> u64 {
        self.get(k).map(|s| s.parse().unwrap_or_else(|_| panic!("bad number for {}", k))).unwrap_or(d)
    }
    pub fn usize(&self, k: &str, d: usize) -> usize {
        self.u64(k, d as u64) as usize
    }
    pub fn flag(&self, k: &str) -> bool {
        matches!(self.get(k), Some("1") | Some("true") | Some("yes"))
    }
}

pub fn now_s() -> f64 {
    // Monotonic clock relative to the first call (works under Miri's isolation too).
    use std::sync::OnceLock;
    use std::time::Instant;
    static T0: OnceLock<Instant> = OnceLock::new();
    T0.get_or_init(Instant::now).elapsed().as_secs_f64()
}
