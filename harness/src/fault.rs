//! Fault plans (C18): "the n-th invocation of user code of kind K panics". User code the library
//! calls: the rcu closure, the `Into` conversion of its result, the pointee destructor, projection
//! functions, `Constant`'s clone. At most one panic per execution.

use std::cell::Cell;
use std::sync::atomic::Ordering::*;
use std::sync::atomic::{AtomicBool, AtomicU64, AtomicU8};
use std::sync::Mutex;

pub const K_CLOSURE: u8 = 1;
pub const K_INTO: u8 = 2;
pub const K_DESTRUCTOR: u8 = 3;
pub const K_PROJECTION: u8 = 4;
pub const K_CLONE: u8 = 5;
pub const KIND_NAMES: [&str; 6] = ["none", "rcu-closure", "into-conversion", "destructor", "projection", "constant-clone"];

static ACTIVE: AtomicBool = AtomicBool::new(false);
static KIND: AtomicU8 = AtomicU8::new(0);
static NTH: AtomicU64 = AtomicU64::new(0);
static FIRED: AtomicBool = AtomicBool::new(false);
static COUNTS: [AtomicU64; 6] = [const { AtomicU64::new(0) }; 6];

#[derive(Clone, Debug)]
pub struct Injection {
    pub kind: u8,
    pub nth: u64,
    pub in_payall: bool,
    pub op: u8,
    pub thread: usize,
}

static LAST: Mutex<Option<Injection>> = Mutex::new(None);

thread_local! {
    /// The workload operation the calling thread is executing (for the injection context).
    pub static CURRENT_OP: Cell<u8> = const { Cell::new(255) };
}

/// Start counting invocations; `kind == 0` = count only (baseline run).
pub fn arm(kind: u8, nth: u64) {
    for c in COUNTS.iter() {
        c.store(0, Relaxed);
    }
    KIND.store(kind, Relaxed);
    NTH.store(nth, Relaxed);
    FIRED.store(false, Relaxed);
    *LAST.lock().unwrap_or_else(|e| e.into_inner()) = None;
    ACTIVE.store(true, SeqCst);
}

pub fn disarm() {
    ACTIVE.store(false, SeqCst);
}

pub fn counts() -> [u64; 6] {
    let mut r = [0; 6];
    for (i, c) in COUNTS.iter().enumerate() {
        r[i] = c.load(Relaxed);
    }
    r
}

pub fn injection() -> Option<Injection> {
    LAST.lock().unwrap_or_else(|e| e.into_inner()).clone()
}

/// An invocation of user code of kind `kind`. Panics (tagged) if the plan says so.
#[inline]
pub fn hit(kind: u8) {
    if !ACTIVE.load(Relaxed) {
        return;
    }
    let n = COUNTS[kind as usize].fetch_add(1, Relaxed) + 1;
    if KIND.load(Relaxed) == kind && NTH.load(Relaxed) == n && !FIRED.swap(true, SeqCst) {
        *LAST.lock().unwrap_or_else(|e| e.into_inner()) =
            Some(Injection { kind, nth: n, in_payall: crate::runner::in_payall(), op: CURRENT_OP.with(|c| c.get()), thread: crate::sched::tid() });
        crate::runner::note_injected_panic();
        std::panic::panic_any(crate::runner::InjectedPanic(KIND_NAMES[kind as usize]));
    }
}
