//! Step-hook handler: OFF, FREE (seeded delay fuzzing, real parallelism) and TOKEN (seeded
//! token-passing scheduler: only the token holder runs, every step point is a scheduling
//! decision, an execution is a function of its seeds).
//!
//! Nothing in FREE mode touches shared state except relaxed statistics counters, so FREE mode adds
//! no happens-before edges (it is the mode used under TSan and Miri).

use std::cell::{Cell, UnsafeCell};
use std::sync::atomic::Ordering::*;
use std::sync::atomic::{AtomicBool, AtomicI64, AtomicU32, AtomicU64, AtomicU8, AtomicUsize};

use crate::util::{mix, Rng};

pub const MAXT: usize = 24;
pub const NSITES: usize = 256;
pub const NOT_WORKER: usize = usize::MAX;

/// Harness-level step points (crate step points are `arc_swap::verif::Site as u16`, < 200).
pub mod hs {
    pub const TP_INC: u16 = 200;
    pub const TP_DEC: u16 = 201;
    pub const TP_DESTROY: u16 = 202;
    pub const TP_INTO: u16 = 203;
    pub const TP_FROM: u16 = 204;
    pub const TP_AS: u16 = 205;
    pub const CLOSURE: u16 = 206;
    pub const OP_GAP: u16 = 207;
    pub const BLOCKED: u16 = 208;
    pub const THREAD_START: u16 = 209;
    pub const THREAD_EXIT: u16 = 210;
    pub const USER: u16 = 211;
    pub const NAMES: &[&str] = &[
        "TP_INC", "TP_DEC", "TP_DESTROY", "TP_INTO", "TP_FROM", "TP_AS", "CLOSURE", "OP_GAP", "BLOCKED",
        "THREAD_START", "THREAD_EXIT", "USER",
    ];
}

pub fn site_name(s: u16) -> String {
    let s = s as usize;
    if s < arc_swap::verif::SITES.len() {
        arc_swap::verif::SITES[s].to_string()
    } else if s >= 200 && s - 200 < hs::NAMES.len() {
        hs::NAMES[s - 200].to_string()
    } else {
        format!("site{}", s)
    }
}

pub fn site_id(name: &str) -> Option<u16> {
    arc_swap::verif::SITES.iter().position(|s| *s == name).map(|p| p as u16)
}

#[derive(Copy, Clone, PartialEq, Eq, Debug)]
#[repr(u8)]
pub enum Mode {
    Off = 0,
    Free = 1,
    Token = 2,
}

static MODE: AtomicU8 = AtomicU8::new(0);
/// FREE mode intensity: probability (out of 256) that a step point perturbs the thread.
static FREE_P: AtomicU32 = AtomicU32::new(24);
/// Progress indicator for the watchdog (steps in TOKEN mode, ops in FREE mode).
pub static PROGRESS: AtomicU64 = AtomicU64::new(0);
/// Generation wraps that happened inside a writer's debt walk (i.e. in its nested replacement load).
pub static WRAPS_IN_PAYALL: AtomicU64 = AtomicU64::new(0);
/// Global per-site hit counters (flushed from the per-thread ones).
static SITE_HITS: [AtomicU64; NSITES] = {
    #[allow(clippy::declare_interior_mutable_const)]
    const Z: AtomicU64 = AtomicU64::new(0);
    [Z; NSITES]
};

thread_local! {
    static TID: Cell<usize> = const { Cell::new(NOT_WORKER) };
    static OPSTEPS: Cell<u32> = const { Cell::new(0) };
    static OPLIMIT: Cell<u32> = const { Cell::new(u32::MAX) };
    static OPPROP: Cell<u8> = const { Cell::new(0) };
    static OPSOFT: Cell<bool> = const { Cell::new(false) };
    static AUTO_SOLO: Cell<bool> = const { Cell::new(false) };
    static FRNG: Cell<u64> = const { Cell::new(0x1234_5678_9ABC_DEF1) };
    static LOCAL_HITS: [Cell<u32>; NSITES] = const { [const { Cell::new(0) }; NSITES] };
    /// Bit mask of "path marker" sites seen since the last `take_marks`.
    static MARKS: Cell<u128> = const { Cell::new(0) };
}

pub fn mode() -> Mode {
    match MODE.load(Relaxed) {
        1 => Mode::Free,
        2 => Mode::Token,
        _ => Mode::Off,
    }
}

pub fn set_mode(m: Mode) {
    MODE.store(m as u8, Relaxed);
}

pub fn set_free_intensity(p: u32) {
    FREE_P.store(p, Relaxed);
}

pub fn install() {
    arc_swap::verif::set_step_hook(Some(hook));
}

pub fn tid() -> usize {
    TID.with(|t| t.get())
}

pub fn set_tid(t: usize) {
    TID.with(|c| c.set(t));
}

pub fn seed_thread_rng(seed: u64) {
    FRNG.with(|r| r.set(seed | 1));
}

/// Start counting own steps of an API call; returns nothing. `limit` = budget; exceeding it is
/// reported through `crate::viol` under `prop` and the process is terminated (the call may never
/// return).
pub fn op_begin(limit: u32) {
    op_begin_ext(limit, 0, false);
}

/// `prop`: which property a budget violation of this call belongs to (8 = a read, which must be
/// wait-free under every schedule; 9 = a write / guard operation, which must finish when running
/// alone; 0 = the workload's default). `break_livelock`: writers are only lock-free, so two of them
/// can keep each other busy for ever under a perfectly symmetric schedule (observed: two writers of
/// the fallback-only strategy helping each other in lock-step). That is no violation of any
/// property here; after `SOFT_LIMIT` steps the scheduler therefore lets the caller run alone – if
/// it still does not finish within the budget, it violates C09.
pub fn op_begin_ext(limit: u32, prop: u8, break_livelock: bool) {
    OPSTEPS.with(|c| c.set(0));
    OPLIMIT.with(|c| c.set(limit));
    OPPROP.with(|c| c.set(prop));
    OPSOFT.with(|c| c.set(break_livelock));
}

pub const SOFT_LIMIT: u32 = 4000;
pub static LIVELOCK_BREAKS: AtomicU64 = AtomicU64::new(0);

/// Steps the calling thread made since `op_begin`.
pub fn op_steps() -> u32 {
    OPLIMIT.with(|c| c.set(u32::MAX));
    OPSOFT.with(|c| c.set(false));
    if AUTO_SOLO.with(|c| c.replace(false)) {
        end_solo();
    }
    OPSTEPS.with(|c| c.get())
}

pub fn peek_marks() -> u128 {
    MARKS.with(|m| m.get())
}

pub fn take_marks() -> u128 {
    MARKS.with(|m| m.replace(0))
}

/// Hits of a site on the calling thread since its last flush.
pub fn site_hit_local(site: u16) -> u32 {
    LOCAL_HITS.with(|h| h[(site as usize) & (NSITES - 1)].get())
}

pub fn or_marks(m: u128) {
    MARKS.with(|c| c.set(c.get() | m));
}

pub fn flush_thread_stats() {
    LOCAL_HITS.with(|h| {
        for (i, c) in h.iter().enumerate() {
            let v = c.replace(0);
            if v != 0 {
                SITE_HITS[i].fetch_add(v as u64, Relaxed);
            }
        }
    });
}

pub fn site_hits() -> Vec<(String, u64)> {
    let mut v = Vec::new();
    for (i, h) in SITE_HITS.iter().enumerate() {
        let n = h.load(Relaxed);
        if n != 0 {
            v.push((site_name(i as u16), n));
        }
    }
    v
}

pub fn site_hit_count(site: u16) -> u64 {
    SITE_HITS[site as usize].load(Relaxed)
}

/// What to do when the per-call step budget is exceeded (set by the workload).
pub static BUDGET_PROP: AtomicU8 = AtomicU8::new(0);

fn hook(site: u16) {
    step(site)
}

/// A step point (crate or harness).
#[inline]
pub fn step(site: u16) {
    let m = MODE.load(Relaxed);
    if m == 0 {
        return;
    }
    let idx = (site as usize) & (NSITES - 1);
    LOCAL_HITS.with(|h| h[idx].set(h[idx].get().wrapping_add(1)));
    if idx < 128 {
        MARKS.with(|mk| mk.set(mk.get() | (1u128 << idx)));
    }
    let n = OPSTEPS.with(|c| {
        let n = c.get().wrapping_add(1);
        c.set(n);
        n
    });
    if n > OPLIMIT.with(|c| c.get()) {
        budget_exceeded(site, n);
    }
    if n == SOFT_LIMIT && m == 2 && OPSOFT.with(|c| c.get()) && tid() != NOT_WORKER {
        // symmetry breaker for lock-free writers (see `op_begin_ext`)
        let inn = unsafe { inner() };
        if inn.solo == NOT_WORKER {
            inn.solo = tid();
            AUTO_SOLO.with(|c| c.set(true));
            LIVELOCK_BREAKS.fetch_add(1, Relaxed);
        }
    }
    if site == arc_swap::verif::Site::PAYALL_BEGIN as u16 {
        crate::runner::payall_mark(true);
    } else if site == arc_swap::verif::Site::PAYALL_END as u16 {
        crate::runner::payall_mark(false);
    } else if site == arc_swap::verif::Site::HELPING_WRAP as u16 && crate::runner::in_payall() {
        WRAPS_IN_PAYALL.fetch_add(1, Relaxed);
    }
    if m == 1 {
        free_step(site);
    } else {
        token_step(site);
    }
}

#[cold]
fn budget_exceeded(site: u16, n: u32) {
    OPLIMIT.with(|c| c.set(u32::MAX));
    let own = OPPROP.with(|c| c.get());
    let prop = match if own != 0 { own } else { BUDGET_PROP.load(Relaxed) } {
        8 => "C08",
        9 => "C09",
        13 => "C13",
        _ => "C09",
    };
    crate::viol::report(
        prop,
        "step-budget-exceeded",
        format!("thread {} made {} own steps inside one call (last site {})", tid(), n, site_name(site)),
    );
    crate::runner::abort_with_violation();
}

// ---------------------------------------------------------------------------------------------
// FREE mode

#[inline]
fn free_rand() -> u64 {
    FRNG.with(|r| {
        let mut x = r.get();
        x ^= x << 13;
        x ^= x >> 7;
        x ^= x << 17;
        r.set(x);
        x
    })
}

fn window_site(site: u16) -> bool {
    use arc_swap::verif::Site as S;
    site == S::ATTEMPT_CONFIRM as u16
        || site == S::FALLBACK_LOAD as u16
        || site == S::CONFIRM_SLOT as u16
        || site == S::CONFIRM_CTRL as u16
        || site == S::DEBT_PAY as u16
        || site == S::PAYALL_NODE as u16
        || site == S::HELP_CTRL_CAS as u16
        || site == S::HELP_REPLACEMENT as u16
        || site == S::CAS_XCHG as u16
        || site == S::NODE_CLAIM as u16
        || site == S::HELP_CTRL_RELOAD as u16
        || site == S::HELP_ADDR_LOAD as u16
        || site == S::HELP_SPACE_LOAD as u16
        || site == S::COOLDOWN_START as u16
        || site == S::WRITER_SUB as u16
        // third round of seeded changes: the reader's announcement steps, the writer's first look at a
        // node's control word and the three reads of the cooldown check are windows too
        || site == S::HELP_CTRL_LOAD as u16
        || site == S::HELPING_ADDR_STORE as u16
        || site == S::HELPING_CTRL_GEN as u16
        || site == S::COOLDOWN_CHECK as u16
        || site == S::COOLDOWN_WRITERS as u16
        || site == S::COOLDOWN_CAS as u16
        || site == hs::TP_INTO
        || site == hs::CLOSURE
        || site == hs::TP_INC
        || site == hs::TP_DEC
}

#[inline]
fn free_step(site: u16) {
    let r = free_rand();
    let p = FREE_P.load(Relaxed) as u64;
    let p = if window_site(site) { p * 3 } else { p };
    if (r & 0xFF) >= p {
        return;
    }
    let k = (r >> 8) & 0x3F;
    if cfg!(miri) {
        std::thread::yield_now();
        return;
    }
    if k < 40 {
        std::thread::yield_now();
    } else if k < 62 {
        let n = 20 + ((r >> 16) & 0x3FF);
        for _ in 0..n {
            std::hint::spin_loop();
        }
    } else {
        let us = 1 + ((r >> 16) % 40);
        std::thread::sleep(std::time::Duration::from_micros(us));
    }
}

// ---------------------------------------------------------------------------------------------
// TOKEN mode

pub const ST_ABSENT: u8 = 0;
pub const ST_RUNNABLE: u8 = 1;
pub const ST_BLOCKED: u8 = 2;
pub const ST_FINISHED: u8 = 3;
pub const CUR_NONE: usize = usize::MAX - 1;
pub const CUR_DONE: usize = usize::MAX - 2;

#[derive(Clone, Debug, serde::Serialize)]
pub enum Strat {
    /// Switch to a uniformly chosen other runnable thread with probability sw/16 at every step.
    Random { sw: u32 },
    /// PCT-style: strict priorities, `d` priority change points at random step indices.
    Pct { d: u32, horizon: u64 },
    /// After a step of `victim` (with probability p/16) let another thread complete `k` whole
    /// operations before the victim continues.
    Adversary { victim: usize, k: u32, p: u32 },
    /// Site-aware random: at a *window* step point (the few-instruction windows the properties name)
    /// the running thread is parked with probability p_in/16 and another thread runs; elsewhere
    /// only with probability p_out/16. Threads therefore tend to sit inside windows while the others
    /// complete whole operations - the shape multi-party races need.
    Windows { p_in: u32, p_out: u32 },
    /// Directed schedule: `inner.script` is a list of (thread, site): run that thread until it is
    /// about to execute that step point (u16::MAX = until it has finished), then go on with the
    /// next entry; after the script, round-robin until everybody is done.
    Script,
    /// Systematic schedule: `inner.segments` is a list of (thread, number of own step points): that
    /// thread runs for that many step points (u64::MAX = until it has finished), then the next entry
    /// takes over; afterwards the current thread keeps running and the others follow as it finishes.
    Segments,
}

pub struct Inner {
    pub rng: Rng,
    pub strat: Strat,
    pub prio: [u32; MAXT],
    pub changes: Vec<u64>,
    pub trace_hash: u64,
    pub nsteps: u64,
    pub switches: u64,
    pub last_site: [u16; MAXT],
    pub ops_done: [u32; MAXT],
    pub adv_left: u32,
    pub adv_thread: usize,
    pub adv_rounds: u64,
    pub solo: usize,
    pub blocked_spins: u64,
    pub nthreads: usize,
    pub record: bool,
    pub trace: Vec<(u8, u16)>,
    /// Scheduler-level freeze: at global step `freeze_at` (0 = never) every thread except
    /// `freeze_who` stays parked at its current step point until `end_solo`.
    pub freeze_at: u64,
    pub freeze_who: usize,
    pub freeze_done: bool,
    pub freeze_reset_steps: bool,
    pub freeze_budget: u32,
    pub solo_fresh: bool,
    pub frozen_sites: Vec<(usize, u16)>,
    pub script: Vec<(usize, u16)>,
    pub script_pos: usize,
    pub script_failed: bool,
    pub segments: Vec<(usize, u64)>,
    pub seg_pos: usize,
    pub seg_left: u64,
    pub seg_started: bool,
    pub steps_by: [u64; MAXT],
}

pub struct Tok {
    cur: AtomicUsize,
    status: [AtomicU8; MAXT],
    pub incall: [AtomicBool; MAXT],
    pub ostid: [AtomicI64; MAXT],
    inner: UnsafeCell<Inner>,
}

unsafe impl Sync for Tok {}

static TOK: Tok = Tok {
    cur: AtomicUsize::new(CUR_NONE),
    status: [const { AtomicU8::new(0) }; MAXT],
    incall: [const { AtomicBool::new(false) }; MAXT],
    ostid: [const { AtomicI64::new(0) }; MAXT],
    inner: UnsafeCell::new(Inner {
        rng: Rng(1),
        strat: Strat::Random { sw: 4 },
        prio: [0; MAXT],
        changes: Vec::new(),
        trace_hash: 0,
        nsteps: 0,
        switches: 0,
        last_site: [0; MAXT],
        ops_done: [0; MAXT],
        adv_left: 0,
        adv_thread: NOT_WORKER,
        adv_rounds: 0,
        solo: NOT_WORKER,
        blocked_spins: 0,
        nthreads: 0,
        record: false,
        trace: Vec::new(),
        freeze_at: 0,
        freeze_who: NOT_WORKER,
        freeze_done: false,
        freeze_reset_steps: false,
        freeze_budget: u32::MAX,
        solo_fresh: false,
        frozen_sites: Vec::new(),
        script: Vec::new(),
        script_pos: 0,
        script_failed: false,
        segments: Vec::new(),
        seg_pos: 0,
        seg_left: 0,
        seg_started: false,
        steps_by: [0; MAXT],
    }),
};

/// Access to the scheduler state. Only legal for the token holder or while no execution runs.
#[allow(clippy::mut_from_ref)]
pub unsafe fn inner() -> &'static mut Inner {
    &mut *TOK.inner.get()
}

pub fn tok() -> &'static Tok {
    &TOK
}

pub fn status(t: usize) -> u8 {
    TOK.status[t].load(Acquire)
}

pub fn cur() -> usize {
    TOK.cur.load(Acquire)
}

/// Prepare a TOKEN execution with `n` initial participants. Called by the (non-participant)
/// controlling thread while no worker runs.
pub fn token_prepare(n: usize, sched_seed: u64, strat: Strat, record: bool) {
    assert!(n <= MAXT);
    let inn = unsafe { inner() };
    inn.rng = Rng::new(sched_seed);
    inn.trace_hash = 0;
    inn.nsteps = 0;
    inn.switches = 0;
    inn.last_site = [0; MAXT];
    inn.ops_done = [0; MAXT];
    inn.adv_left = 0;
    inn.adv_thread = NOT_WORKER;
    inn.adv_rounds = 0;
    inn.solo = NOT_WORKER;
    inn.blocked_spins = 0;
    inn.nthreads = n;
    inn.record = record;
    inn.trace.clear();
    inn.freeze_at = 0;
    inn.freeze_who = NOT_WORKER;
    inn.freeze_done = false;
    inn.freeze_reset_steps = false;
    inn.freeze_budget = u32::MAX;
    inn.solo_fresh = false;
    inn.frozen_sites.clear();
    inn.script.clear();
    inn.script_pos = 0;
    inn.script_failed = false;
    inn.segments.clear();
    inn.seg_pos = 0;
    inn.seg_left = 0;
    inn.seg_started = false;
    inn.steps_by = [0; MAXT];
    inn.changes.clear();
    for p in inn.prio.iter_mut() {
        *p = 0;
    }
    // distinct random priorities
    let mut order: Vec<usize> = (0..MAXT).collect();
    for i in (1..MAXT).rev() {
        let j = inn.rng.below(i as u64 + 1) as usize;
        order.swap(i, j);
    }
    for (rank, t) in order.iter().enumerate() {
        inn.prio[*t] = 1000 + rank as u32;
    }
    if let Strat::Pct { d, horizon } = strat {
        for _ in 0..d {
            let at = inn.rng.below(horizon.max(1));
            inn.changes.push(at);
        }
    }
    inn.strat = strat;
    for t in 0..MAXT {
        TOK.status[t].store(if t < n { ST_RUNNABLE } else { ST_ABSENT }, Relaxed);
        TOK.incall[t].store(false, Relaxed);
    }
    TOK.cur.store(CUR_NONE, Release);
}

/// Hand the token to the first thread (chosen by seed). Called by the controller after spawning.
pub fn token_start() {
    let inn = unsafe { inner() };
    let n = inn.nthreads;
    let first = match inn.strat {
        Strat::Pct { .. } => highest_prio(inn, NOT_WORKER).unwrap_or(0),
        Strat::Segments => inn.segments.first().map(|x| x.0).unwrap_or(0),
        _ => inn.rng.below(n as u64) as usize,
    };
    TOK.cur.store(first, Release);
}

pub fn token_done() -> bool {
    TOK.cur.load(Acquire) == CUR_DONE
}

/// Wait (as the controller) until the execution is over.
pub fn token_wait_done() {
    let mut spins = 0u32;
    while TOK.cur.load(Acquire) != CUR_DONE {
        spins += 1;
        if spins > 64 {
            std::thread::yield_now();
        } else {
            std::hint::spin_loop();
        }
    }
}

#[inline]
fn wait_for(me: usize) {
    let mut spins = 0u32;
    loop {
        if TOK.cur.load(Acquire) == me {
            return;
        }
        spins += 1;
        if spins < 2000 && !cfg!(miri) {
            std::hint::spin_loop();
        } else {
            std::thread::yield_now();
        }
    }
}

/// Worker prologue: become participant `t` and wait for the token.
pub fn token_enter(t: usize) {
    set_tid(t);
    if !cfg!(miri) {
        TOK.ostid[t].store(unsafe { libc::syscall(libc::SYS_gettid) } as i64, Relaxed);
    }
    wait_for(t);
}

/// Register a new participant (called by a token holder before spawning its OS thread).
pub fn token_add_participant(t: usize) {
    let inn = unsafe { inner() };
    assert!(t < MAXT);
    if t >= inn.nthreads {
        inn.nthreads = t + 1;
    }
    TOK.status[t].store(ST_RUNNABLE, Release);
}

fn runnable(t: usize) -> bool {
    TOK.status[t].load(Relaxed) == ST_RUNNABLE
}

fn highest_prio(inn: &Inner, except: usize) -> Option<usize> {
    let mut best = None;
    let mut bp = 0;
    for t in 0..inn.nthreads {
        if t != except && runnable(t) && inn.prio[t] >= bp {
            bp = inn.prio[t];
            best = Some(t);
        }
    }
    best
}

fn random_other(inn: &mut Inner, me: usize) -> Option<usize> {
    let mut cand = [0usize; MAXT];
    let mut n = 0;
    for t in 0..inn.nthreads {
        if t != me && runnable(t) {
            cand[n] = t;
            n += 1;
        }
    }
    if n == 0 {
        None
    } else {
        Some(cand[inn.rng.below(n as u64) as usize])
    }
}

fn pick(inn: &mut Inner, me: usize, site: u16) -> usize {
    if inn.solo != NOT_WORKER {
        return inn.solo;
    }
    match inn.strat {
        Strat::Script => script_pick(inn, me, site),
        Strat::Segments => segments_pick(inn, me),
        Strat::Windows { p_in, p_out } => {
            let p = if window_site(site) { p_in } else { p_out };
            if inn.rng.below(16) < p as u64 {
                random_other(inn, me).unwrap_or(me)
            } else {
                me
            }
        }
        Strat::Random { sw } => {
            if inn.rng.below(16) < sw as u64 {
                random_other(inn, me).unwrap_or(me)
            } else {
                me
            }
        }
        Strat::Pct { .. } => {
            let step = inn.nsteps;
            if inn.changes.contains(&step) {
                // demote the running thread below everything else
                let minp = (0..inn.nthreads).map(|t| inn.prio[t]).min().unwrap_or(1);
                inn.prio[me] = minp.saturating_sub(1);
            }
            highest_prio(inn, NOT_WORKER).unwrap_or(me)
        }
        Strat::Adversary { victim, k, p } => {
            if me == victim {
                if inn.rng.below(16) < p as u64 {
                    if let Some(w) = random_other(inn, me) {
                        inn.adv_left = k;
                        inn.adv_thread = w;
                        inn.adv_rounds += 1;
                        return w;
                    }
                }
                me
            } else if inn.adv_thread == me && inn.adv_left > 0 {
                me
            } else if runnable(victim) {
                // background interleaving between non-victims while no adversary burst is active
                if inn.rng.below(16) < 4 {
                    random_other(inn, me).unwrap_or(me)
                } else {
                    me
                }
            } else if inn.rng.below(16) < 4 {
                random_other(inn, me).unwrap_or(me)
            } else {
                me
            }
        }
    }
}

/// Systematic schedule (see `Strat::Segments`). Called when `me` is about to execute a step point.
fn segments_pick(inn: &mut Inner, me: usize) -> usize {
    loop {
        if inn.seg_pos >= inn.segments.len() {
            return me;
        }
        let (t, n) = inn.segments[inn.seg_pos];
        let st = TOK.status[t].load(Relaxed);
        if st == ST_FINISHED || st == ST_ABSENT {
            inn.seg_pos += 1;
            inn.seg_started = false;
            continue;
        }
        if !inn.seg_started {
            inn.seg_started = true;
            inn.seg_left = n;
        }
        if t != me {
            return t;
        }
        if inn.seg_left == 0 {
            inn.seg_pos += 1;
            inn.seg_started = false;
            continue;
        }
        if inn.seg_left != u64::MAX {
            inn.seg_left -= 1;
        }
        return me;
    }
}

/// Directed schedule (see `Strat::Script`).
fn script_pick(inn: &mut Inner, me: usize, site: u16) -> usize {
    let mut reached_here = false;
    loop {
        if inn.script_pos >= inn.script.len() {
            // after the script: keep the current thread running, others follow when it finishes
            return me;
        }
        let (t, until) = inn.script[inn.script_pos];
        let st = TOK.status[t].load(Relaxed);
        if st == ST_FINISHED || st == ST_ABSENT {
            if until != u16::MAX {
                inn.script_failed = true;
            }
            inn.script_pos += 1;
            continue;
        }
        if t == me && until == site {
            if reached_here {
                // the same (thread, point) twice in a row means its next occurrence: run on
                return me;
            }
            // reached: this thread stays parked right before executing `site`
            reached_here = true;
            inn.script_pos += 1;
            continue;
        }
        return t;
    }
}

#[inline]
fn token_step(site: u16) {
    let me = tid();
    if me == NOT_WORKER {
        return;
    }
    let inn = unsafe { inner() };
    inn.nsteps += 1;
    PROGRESS.fetch_add(1, Relaxed);
    inn.trace_hash = mix(inn.trace_hash, ((me as u64) << 16) | site as u64);
    inn.last_site[me] = site;
    inn.steps_by[me] += 1;
    if inn.record && inn.trace.len() < 20000 {
        inn.trace.push((me as u8, site));
    }
    if inn.freeze_at != 0 && !inn.freeze_done && inn.nsteps >= inn.freeze_at && inn.solo == NOT_WORKER {
        let w = inn.freeze_who;
        let st = TOK.status[w].load(Relaxed);
        if st == ST_RUNNABLE || st == ST_BLOCKED {
            inn.freeze_done = true;
            inn.solo = w;
            inn.solo_fresh = true;
            inn.frozen_sites = (0..inn.nthreads)
                .filter(|&t| t != w && TOK.status[t].load(Relaxed) == ST_RUNNABLE)
                .map(|t| (t, if t == me { site } else { inn.last_site[t] }))
                .collect();
        }
    }
    let next = pick(inn, me, site);
    if next != me {
        inn.switches += 1;
        TOK.cur.store(next, Release);
        wait_for(me);
    }
    // re-borrow: other token holders had their own exclusive access in the meantime
    let inn = unsafe { inner() };
    if inn.solo_fresh && inn.solo == me {
        // first step of the solo thread after the freeze: from here on it runs alone
        inn.solo_fresh = false;
        if inn.freeze_reset_steps {
            // the call in progress (if any) is bounded from here on, counted from the freeze
            OPSTEPS.with(|c| c.set(0));
            let b = inn.freeze_budget;
            OPLIMIT.with(|c| {
                if c.get() != u32::MAX {
                    c.set(b)
                }
            });
        }
    }
}

/// The calling worker completed one API operation.
pub fn op_done() {
    PROGRESS.fetch_add(1, Relaxed);
    if MODE.load(Relaxed) != 2 {
        return;
    }
    let me = tid();
    if me == NOT_WORKER {
        return;
    }
    let inn = unsafe { inner() };
    inn.ops_done[me] += 1;
    if inn.adv_thread == me && inn.adv_left > 0 {
        inn.adv_left -= 1;
        if inn.adv_left == 0 {
            inn.adv_thread = NOT_WORKER;
            if let Strat::Adversary { victim, .. } = inn.strat {
                if runnable(victim) && inn.solo == NOT_WORKER {
                    inn.switches += 1;
                    TOK.cur.store(victim, Release);
                    wait_for(me);
                }
            }
        }
    }
}

/// The calling worker cannot continue until some other thread moves (harness-level wait).
/// Returns after at least one other thread had a chance to run.
pub fn yield_blocked() {
    match mode() {
        Mode::Token => {}
        _ => {
            std::thread::yield_now();
            return;
        }
    }
    let me = tid();
    if me == NOT_WORKER {
        std::thread::yield_now();
        return;
    }
    let inn = unsafe { inner() };
    if inn.solo == me {
        panic!("harness error: solo thread blocks on a harness condition");
    }
    inn.blocked_spins += 1;
    if inn.blocked_spins > 50_000_000 {
        panic!("harness error: all participants blocked (harness deadlock)");
    }
    TOK.status[me].store(ST_BLOCKED, Relaxed);
    // Prefer runnable threads; else poll other blocked ones round-robin.
    let next = if inn.solo != NOT_WORKER {
        Some(inn.solo)
    } else {
        random_other(inn, me).or_else(|| {
            let n = inn.nthreads;
            (1..n).map(|d| (me + d) % n).find(|&t| TOK.status[t].load(Relaxed) == ST_BLOCKED)
        })
    };
    match next {
        Some(t) => {
            TOK.cur.store(t, Release);
            wait_for(me);
            TOK.status[me].store(ST_RUNNABLE, Relaxed);
        }
        None => {
            TOK.status[me].store(ST_RUNNABLE, Relaxed);
            panic!("harness error: thread {} blocked but nobody else can run", me);
        }
    }
}

/// A real step happened (resets the deadlock detector); called by workloads after a successful
/// wait.
pub fn unblocked() {
    if mode() == Mode::Token && tid() != NOT_WORKER {
        unsafe { inner() }.blocked_spins = 0;
    }
}

/// Worker epilogue: give the token away for good. Must be the last scheduler call of the thread.
pub fn token_finish() {
    let me = tid();
    if me == NOT_WORKER {
        return;
    }
    flush_thread_stats();
    if mode() != Mode::Token {
        set_tid(NOT_WORKER);
        return;
    }
    let inn = unsafe { inner() };
    TOK.status[me].store(ST_FINISHED, Release);
    if inn.solo == me {
        inn.solo = NOT_WORKER;
    }
    if inn.adv_thread == me {
        inn.adv_thread = NOT_WORKER;
        inn.adv_left = 0;
    }
    set_tid(NOT_WORKER);
    let next = match inn.strat {
        Strat::Pct { .. } => highest_prio(inn, me),
        Strat::Adversary { victim, .. } if runnable(victim) => Some(victim),
        Strat::Script => {
            let want = inn.script.get(inn.script_pos).map(|x| x.0);
            match want {
                Some(t) if t != me && runnable(t) => Some(t),
                _ => random_other(inn, me),
            }
        }
        Strat::Segments => {
            let want = inn.segments.get(inn.seg_pos).map(|x| x.0);
            match want {
                Some(t) if t != me && runnable(t) => Some(t),
                _ => (0..inn.nthreads).find(|&t| t != me && runnable(t)),
            }
        }
        _ => random_other(inn, me),
    };
    let next = next.or_else(|| (0..inn.nthreads).find(|&t| t != me && TOK.status[t].load(Relaxed) == ST_BLOCKED));
    match next {
        Some(t) => TOK.cur.store(t, Release),
        None => TOK.cur.store(CUR_DONE, Release),
    }
}

/// From now on only the calling thread runs (all others stay parked where they are).
pub fn begin_solo() {
    if mode() == Mode::Token && tid() != NOT_WORKER {
        unsafe { inner() }.solo = tid();
    }
}

/// Arrange a scheduler-level freeze (token holder or controller before the start).
pub fn set_freeze(at: u64, who: usize, reset_steps: bool, budget: u32) {
    let inn = unsafe { inner() };
    inn.freeze_at = at;
    inn.freeze_who = who;
    inn.freeze_reset_steps = reset_steps;
    inn.freeze_budget = budget;
}

/// No freeze any more (if it has not happened yet); ends a freeze that is in effect.
pub fn cancel_freeze() {
    if mode() == Mode::Token && tid() != NOT_WORKER {
        let inn = unsafe { inner() };
        inn.freeze_done = true;
        inn.solo_fresh = false;
        if inn.solo == tid() {
            inn.solo = NOT_WORKER;
        }
    }
}

pub fn set_segments(segments: Vec<(usize, u64)>) {
    let inn = unsafe { inner() };
    inn.segments = segments;
    inn.seg_pos = 0;
    inn.seg_started = false;
}

pub fn set_script(script: Vec<(usize, u16)>) {
    let inn = unsafe { inner() };
    inn.script = script;
    inn.script_pos = 0;
    inn.script_failed = false;
}

pub fn script_completed() -> bool {
    let inn = unsafe { inner() };
    inn.script_pos >= inn.script.len() && !inn.script_failed
}

pub fn is_solo() -> bool {
    mode() == Mode::Token && tid() != NOT_WORKER && unsafe { inner() }.solo == tid()
}

pub fn frozen_sites() -> Vec<(usize, u16)> {
    unsafe { inner() }.frozen_sites.clone()
}

pub fn end_solo() {
    if mode() == Mode::Token && tid() != NOT_WORKER {
        unsafe { inner() }.solo = NOT_WORKER;
    }
}

/// Sites where the other participants are currently parked (token holder only).
pub fn parked_sites() -> Vec<(usize, u16)> {
    let me = tid();
    let inn = unsafe { inner() };
    (0..inn.nthreads)
        .filter(|&t| t != me && TOK.status[t].load(Relaxed) == ST_RUNNABLE)
        .map(|t| (t, inn.last_site[t]))
        .collect()
}

pub fn others_all_finished() -> bool {
    let me = tid();
    let inn = unsafe { inner() };
    (0..inn.nthreads).all(|t| t == me || matches!(TOK.status[t].load(Relaxed), ST_FINISHED | ST_ABSENT))
}

/// Nobody else can make a real step (everybody else is finished or waits on a harness condition).
pub fn others_all_idle() -> bool {
    let me = tid();
    let inn = unsafe { inner() };
    (0..inn.nthreads).all(|t| t == me || TOK.status[t].load(Relaxed) != ST_RUNNABLE)
}

pub fn global_steps() -> u64 {
    unsafe { inner() }.nsteps
}

pub fn set_incall(v: bool) {
    let me = tid();
    if me != NOT_WORKER {
        TOK.incall[me].store(v, Relaxed);
    }
}
