//! The core concurrent workload: seeded random operation mixes on 1–3 containers by 2–N threads,
//! run under the TOKEN scheduler or in FREE mode, observed by the ledger (C01, C02, C10), the
//! history checker (C03, C04, C05, C06, C12) and the structural invariants of the node list.

use std::cell::RefCell;
use std::collections::{HashMap, HashSet};
use std::sync::atomic::Ordering::*;
use std::sync::atomic::{AtomicBool, AtomicU64};
use std::sync::{Arc, Mutex};

use arc_swap::{ArcSwapAny, Guard};
use serde_json::{json, Value};

use crate::exec::{node_invariants, spawn_worker, Cont, HBarrier, StratExt};
use crate::lin::{self, Kind, Op, Verdict};
use crate::runner;
use crate::sched::{self, hs, Mode, Strat};
use crate::tp::{self, AllocMode, Val};
use crate::util::{mix, Rng};
use crate::viol::report;

pub const NOPS: usize = 14;
#[derive(Copy, Clone, Debug, PartialEq, Eq)]
#[repr(usize)]
pub enum W {
    Load = 0,
    LoadDrop = 1,
    LoadFull = 2,
    DropGuard = 3,
    GuardInto = 4,
    DropOwned = 5,
    Store = 6,
    Swap = 7,
    Cas = 8,
    Rcu = 9,
    Send = 10,
    Recv = 11,
    StoreShared = 12,
    Verify = 13,
    /// `Cache::load` (not part of the weight tables: chosen with probability `cache_p`/16)
    CacheLoad = 14,
}
pub(crate) const ALLW: [W; NOPS] = [
    W::Load, W::LoadDrop, W::LoadFull, W::DropGuard, W::GuardInto, W::DropOwned, W::Store, W::Swap, W::Cas, W::Rcu, W::Send,
    W::Recv, W::StoreShared, W::Verify,
];

#[derive(Clone, Debug)]
pub struct Profile {
    pub name: String,
    pub reader: [u32; NOPS],
    pub writer: [u32; NOPS],
    pub mixed: [u32; NOPS],
    /// weights of roles reader / writer / mixed
    pub roles: [u32; 3],
    pub max_threads: usize,
    pub min_threads: usize,
    pub ops_lo: usize,
    pub ops_hi: usize,
    pub max_guards: usize,
    pub max_conts: usize,
    /// probability (of 16) that the initial / stored values are None
    pub none_p: u64,
    /// allow compare-and-swap with stale raw addresses and `current == new`
    pub cas_pool: bool,
    pub nested_rcu: bool,
    /// probability (of 16) that an operation is a `Cache::load`
    pub cache_p: u64,
}

pub fn profile(name: &str) -> Profile {
    //                  Ld LdD LdF DrG GIn DrO  St  Sw Cas Rcu Snd Rcv StS Ver
    let reader = [30, 30, 15, 25, 5, 10, 0, 0, 0, 0, 3, 3, 0, 5];
    let writer = [2, 4, 2, 2, 1, 8, 25, 30, 12, 10, 0, 1, 4, 1];
    let mixed = [15, 15, 8, 14, 4, 8, 10, 12, 8, 6, 2, 2, 2, 3];
    let mut p = Profile {
        name: name.to_string(),
        reader,
        writer,
        mixed,
        roles: [4, 3, 3],
        max_threads: 4,
        min_threads: 2,
        ops_lo: 6,
        ops_hi: 16,
        max_guards: 12,
        max_conts: 2,
        none_p: 1,
        cas_pool: false,
        nested_rcu: true,
        cache_p: 0,
    };
    match name {
        "c01" | "c10" => {}
        "c02" => {
            // more empty values: borrows of the null address must be given back like any other
            p.none_p = 3;
        }
        "c03" => {
            p.mixed = [20, 25, 10, 14, 2, 6, 10, 10, 5, 4, 1, 1, 0, 2];
            p.max_conts = 2;
        }
        "c04" => {
            //          Ld LdD LdF DrG GIn DrO  St  Sw Cas Rcu Snd Rcv StS Ver
            p.writer = [1, 3, 1, 1, 0, 10, 6, 40, 16, 10, 0, 0, 12, 0];
            p.mixed = [6, 8, 3, 6, 1, 10, 5, 26, 14, 8, 0, 0, 8, 1];
            p.cas_pool = true;
            p.roles = [2, 5, 3];
            p.max_conts = 1;
        }
        "c05" => {
            p.writer = [3, 3, 1, 3, 1, 8, 6, 8, 50, 2, 0, 0, 2, 0];
            p.mixed = [8, 6, 3, 8, 2, 8, 5, 6, 40, 2, 0, 0, 2, 1];
            p.roles = [1, 5, 4];
            p.max_conts = 1;
            p.cas_pool = true;
            p.none_p = 3;
        }
        "c06" => {
            p.writer = [1, 2, 1, 1, 0, 8, 6, 8, 8, 50, 0, 0, 8, 0];
            p.mixed = [6, 6, 3, 6, 1, 8, 5, 6, 6, 40, 0, 0, 6, 1];
            p.cas_pool = true;
            p.roles = [2, 5, 3];
            p.max_conts = 2;
        }
        "c12" => {
            p.max_conts = 3;
            p.mixed = [15, 15, 8, 14, 4, 8, 10, 12, 8, 6, 2, 2, 8, 3];
            p.writer = [2, 4, 2, 2, 1, 8, 22, 28, 10, 8, 0, 1, 12, 1];
        }
        "c16" => {
            p.cache_p = 6;
            //          Ld LdD LdF DrG GIn DrO  St  Sw Cas Rcu Snd Rcv StS Ver
            p.writer = [2, 4, 2, 2, 1, 8, 30, 22, 8, 6, 0, 0, 10, 1];
            p.mixed = [8, 8, 4, 8, 2, 8, 16, 12, 6, 4, 0, 0, 8, 2];
            p.none_p = 2;
        }
        "free" => {
            p.max_threads = 8;
            p.min_threads = 3;
            p.ops_lo = 300;
            p.ops_hi = 1500;
        }
        other => panic!("unknown profile {}", other),
    }
    p
}

/// A process-wide unique block of value ids for one worker (2^20 ids).
pub(crate) fn id_block() -> u64 {
    static NEXT: AtomicU64 = AtomicU64::new(1);
    NEXT.fetch_add(1, Relaxed) << 20
}

pub(crate) enum CacheKind<V: Val, S: StratExt<V>> {
    Plain(arc_swap::cache::Cache<Cont<V, S>, V>),
    Mapped(arc_swap::cache::MapCache<Cont<V, S>, V, fn(&V) -> &V>),
}

fn identity<V>(v: &V) -> &V {
    crate::fault::hit(crate::fault::K_PROJECTION);
    v
}

pub(crate) struct Held<V: Val, S: StratExt<V>> {
    /// `None` only after `release`
    inner: Option<Guard<V, S>>,
    pub(crate) id: u64,
}

impl<V: Val, S: StratExt<V>> Held<V, S> {
    pub(crate) fn g(&self) -> &Guard<V, S> {
        self.inner.as_ref().expect("guard already released")
    }
}

/// Guards on the empty value (None / dangling Weak) the harness holds right now: they occupy
/// borrow slots with the null address, which no object of the ledger accounts for.
pub(crate) static NONE_GUARDS: std::sync::atomic::AtomicI64 = std::sync::atomic::AtomicI64::new(0);

impl<V: Val, S: StratExt<V>> Drop for Held<V, S> {
    fn drop(&mut self) {
        // Dropped without `release` (a panic unwound through the frame that held it): the ledger
        // must still learn that the harness gives this guard up, before the guard itself goes.
        if let Some(g) = self.inner.as_ref() {
            g.note_guard(-1);
            if g.addr() == 0 {
                NONE_GUARDS.fetch_sub(1, SeqCst);
            }
        }
    }
}

fn hold<V: Val, S: StratExt<V>>(g: Guard<V, S>) -> Held<V, S> {
    let id = g.vid();
    g.note_guard(1);
    if g.addr() == 0 {
        NONE_GUARDS.fetch_add(1, SeqCst);
    }
    Held { inner: Some(g), id }
}

/// Check that the guard still denotes the value it denoted at creation.
fn verify<V: Val, S: StratExt<V>>(h: &Held<V, S>, when: &str) {
    let now = h.g().vid();
    if now != h.id {
        report("C10", "guard-identity-changed", format!("guard created on value {:x} denotes {:x} {}", h.id, now, when));
    }
}

pub(crate) fn release<V: Val, S: StratExt<V>>(h: Held<V, S>) -> Guard<V, S> {
    verify(&h, "at drop");
    let mut h = h;
    let g = h.inner.take().expect("guard already released");
    g.note_guard(-1);
    if g.addr() == 0 {
        NONE_GUARDS.fetch_sub(1, SeqCst);
    }
    g
}

pub(crate) struct Own<V: Val> {
    pub(crate) v: V,
    pub(crate) id: u64,
}

pub(crate) fn own<V: Val>(v: V) -> Own<V> {
    v.note_owner(1);
    let id = v.vid();
    Own { v, id }
}

pub(crate) fn disown<V: Val>(o: Own<V>) -> V {
    let now = o.v.vid();
    if now != o.id {
        report("C10", "handle-identity-changed", format!("owned handle on value {:x} denotes {:x}", o.id, now));
    }
    o.v.note_owner(-1);
    o.v
}

pub struct Shared<V: Val, S: StratExt<V>> {
    pub(crate) clock: AtomicU64,
    pub(crate) mailbox: Mutex<Vec<Held<V, S>>>,
    pub(crate) b1: HBarrier,
    pub(crate) b2: HBarrier,
    pub(crate) results: Mutex<Vec<WorkerResult>>,
    pub(crate) fin: Mutex<Vec<Option<u64>>>,
    pub(crate) q1_done: AtomicBool,
    /// workload-specific stop flag for background threads
    pub(crate) stop: AtomicBool,
    pub(crate) profile: Profile,
    pub(crate) exec_no: u64,
    pub(crate) step_budget: u32,
}

#[derive(Default)]
pub struct WorkerResult {
    pub(crate) t: usize,
    pub(crate) ops: Vec<Op>,
    pub(crate) addr_of: Vec<(u64, u64)>,
    pub(crate) discarded: Vec<u64>,
    pub(crate) paths: HashMap<&'static str, u64>,
    pub(crate) max_load_steps: u32,
    pub(crate) max_write_steps: u32,
    pub(crate) completed: bool,
}

thread_local! {
    /// Directed scenarios: every operation of this thread goes to this container.
    pub(crate) static FORCE_CONT: std::cell::Cell<Option<usize>> = const { std::cell::Cell::new(None) };
}

pub(crate) struct Worker<V: Val, S: StratExt<V>> {
    pub(crate) t: usize,
    pub(crate) rng: Rng,
    pub(crate) conts: Vec<Cont<V, S>>,
    pub(crate) sh: Arc<Shared<V, S>>,
    pub(crate) guards: Vec<(usize, Held<V, S>)>,
    pub(crate) owned: Vec<Own<V>>,
    pub(crate) seen_addrs: Vec<u64>,
    pub(crate) next_id: u64,
    pub(crate) res: RefCell<WorkerResult>,
    /// path flags of the loads made by the calls since the last recorded operation
    pub(crate) last_path: std::cell::Cell<u8>,
    /// step budgets (loads, writes) of the calls made by this worker
    pub(crate) budgets: std::cell::Cell<(u32, u32)>,
    /// steps of the last call
    pub(crate) last_steps: std::cell::Cell<u32>,
    /// one cache per container (created on first use) and the address of the value it retains
    pub(crate) caches: Vec<Option<(CacheKind<V, S>, usize)>>,
    /// the write operation in flight (recorded as an open operation if the call unwinds)
    pub(crate) pending: RefCell<Option<Op>>,
}

impl<V: Val, S: StratExt<V>> Worker<V, S> {
    pub(crate) fn stamp(&self) -> u64 {
        self.sh.clock.fetch_add(1, SeqCst)
    }

    fn fresh(&mut self) -> V {
        self.next_id += 1;
        let id = self.next_id;
        let v = if self.sh.profile.none_p > 0 && self.rng.below(16) < self.sh.profile.none_p { V::none() } else { V::fresh(id) };
        let vid = v.vid();
        self.res.borrow_mut().addr_of.push((vid, v.addr() as u64));
        v
    }

    /// Start of a write operation: remember it as open until it returns.
    fn begin_write(&self, c: usize, kind: Kind, a: u64, cur_addr: u64) -> u64 {
        let inv = self.stamp();
        *self.pending.borrow_mut() = Some(Op { t: self.t as u8, c: c as u8, kind, a, cur_addr, ret: lin::ANY, ret_addr: 0, inv, resp: u64::MAX, path: 0 });
        inv
    }

    /// After a panic unwound out of an operation: the write in flight (if any) stays open.
    pub(crate) fn after_panic(&self) {
        runner::set_in_call(false);
        sched::op_steps();
        if let Some(op) = self.pending.borrow_mut().take() {
            self.res.borrow_mut().ops.push(op);
        }
    }

    fn push_op(&self, c: usize, kind: Kind, a: u64, cur_addr: u64, ret: u64, ret_addr: u64, inv: u64, resp: u64) {
        let path = self.last_path.replace(0);
        self.res.borrow_mut().ops.push(Op { t: self.t as u8, c: c as u8, kind, a, cur_addr, ret, ret_addr, inv, resp, path });
    }

    /// Wrap a call into the crate: step counting, path markers.
    pub(crate) fn call<R>(&self, is_load: bool, f: impl FnOnce() -> R) -> R {
        runner::payall_reset();
        sched::take_marks();
        runner::set_in_call(true);
        let (bl, bw) = self.budgets.get();
        // reads are wait-free under every schedule; writes are lock-free (symmetry broken after
        // SOFT_LIMIT steps in TOKEN mode) and unbounded under real contention in FREE mode
        if is_load {
            sched::op_begin_ext(bl, 8, false);
        } else if sched::mode() == Mode::Token {
            sched::op_begin_ext(bw, 9, true);
        } else {
            sched::op_begin_ext(u32::MAX, 9, false);
        }
        let r = f();
        let steps = sched::op_steps();
        self.last_steps.set(steps);
        runner::set_in_call(false);
        let marks = sched::take_marks();
        {
            let mut res = self.res.borrow_mut();
            if is_load {
                res.max_load_steps = res.max_load_steps.max(steps);
            } else {
                res.max_write_steps = res.max_write_steps.max(steps);
            }
            use arc_swap::verif::Site as St;
            let has = |s: St| marks & (1u128 << (s as u16)) != 0;
            let pf = path_flags(marks);
            self.last_path.set(self.last_path.get() | pf);
            let mut bump = |k: &'static str| *res.paths.entry(k).or_insert(0) += 1;
            if has(St::ATTEMPT_CONFIRMED) {
                bump("load.fast_confirmed");
            }
            if has(St::ATTEMPT_RETURNED) {
                bump("load.fast_changed_debt_returned");
            }
            if has(St::ATTEMPT_PREPAID) {
                bump("load.fast_changed_prepaid");
            }
            if has(St::FAST_FULL) {
                bump("load.fast_slots_full");
            }
            if has(St::FALLBACK_CONFIRMED) {
                bump("load.fallback_confirmed");
            }
            if has(St::FALLBACK_HELPED) {
                bump("load.fallback_helped");
            }
            if has(St::FALLBACK_UNUSED_PAID) {
                bump("load.fallback_helped_and_paid");
            }
            if has(St::HELP_CAS_OK) {
                bump("write.helped_reader");
            }
            if has(St::HELP_CAS_LOST) {
                bump("write.help_lost_race");
            }
            if has(St::HELP_OTHER_STORAGE) {
                bump("write.help_other_storage");
            }
            if has(St::CAS_RETRY) {
                bump("cas.internal_retry");
            }
            if has(St::NODE_REUSED) {
                bump("node.reused");
            }
            if has(St::NODE_NEW) {
                bump("node.new");
            }
        }
        sched::op_done();
        r
    }

    fn pick_cont(&mut self) -> usize {
        if let Some(c) = FORCE_CONT.with(|f| f.get()) {
            return c;
        }
        self.rng.below(self.conts.len() as u64) as usize
    }

    fn keep_guard(&mut self, c: usize, g: Guard<V, S>) {
        let h = hold(g);
        self.seen_addrs.push(h.g().addr() as u64);
        if self.guards.len() < self.sh.profile.max_guards {
            self.guards.push((c, h));
        } else {
            drop(release(h));
        }
    }

    fn keep_owned(&mut self, v: V) {
        let o = own(v);
        if self.owned.len() < 6 && self.rng.chance(1, 2) {
            self.owned.push(o);
        } else {
            drop(disown(o));
        }
    }

    pub(crate) fn do_op(&mut self, w: W) {
        crate::fault::CURRENT_OP.with(|c| c.set(w as u8));
        match w {
            W::Load | W::LoadDrop => {
                let c = self.pick_cont();
                let inv = self.stamp();
                let g = self.call(true, || self.conts[c].load());
                let resp = self.stamp();
                let id = g.vid();
                self.push_op(c, Kind::Load, 0, 0, id, g.addr() as u64, inv, resp);
                if w == W::Load {
                    self.keep_guard(c, g);
                } else {
                    let h = hold(g);
                    sched::step(hs::OP_GAP);
                    drop(release(h));
                }
            }
            W::LoadFull => {
                let c = self.pick_cont();
                let inv = self.stamp();
                let v = self.call(true, || self.conts[c].load_full());
                let resp = self.stamp();
                let id = v.vid();
                self.push_op(c, Kind::Load, 0, 0, id, v.addr() as u64, inv, resp);
                self.seen_addrs.push(v.addr() as u64);
                self.keep_owned(v);
            }
            W::DropGuard => {
                if !self.guards.is_empty() {
                    let i = self.rng.below(self.guards.len() as u64) as usize;
                    let (_, h) = self.guards.swap_remove(i);
                    let g = release(h);
                    self.call(false, || drop(g));
                }
            }
            W::GuardInto => {
                if !self.guards.is_empty() {
                    let i = self.rng.below(self.guards.len() as u64) as usize;
                    let (_, h) = self.guards.swap_remove(i);
                    let id = h.id;
                    let g = release(h);
                    let v = self.call(false, || Guard::into_inner(g));
                    if v.vid() != id {
                        report("C10", "into-inner-identity", format!("Guard::into_inner of a guard on {:x} gave {:x}", id, v.vid()));
                    }
                    self.keep_owned(v);
                }
            }
            W::DropOwned => {
                if !self.owned.is_empty() {
                    let i = self.rng.below(self.owned.len() as u64) as usize;
                    let o = self.owned.swap_remove(i);
                    drop(disown(o));
                }
            }
            W::Store => {
                let c = self.pick_cont();
                let v = self.fresh();
                let id = v.vid();
                let inv = self.begin_write(c, Kind::Store, id, 0);
                self.call(false, || self.conts[c].store(v));
                let resp = self.stamp();
                self.pending.borrow_mut().take();
                self.push_op(c, Kind::Store, id, 0, 0, 0, inv, resp);
            }
            W::StoreShared => {
                // Store a value that is (possibly) already stored somewhere: same value in several
                // containers or twice in one.
                if let Some(o) = self.owned.last() {
                    let v = o.v.clone();
                    let id = o.id;
                    let c = self.pick_cont();
                    let inv = self.begin_write(c, Kind::Store, id, 0);
                    self.call(false, || self.conts[c].store(v));
                    let resp = self.stamp();
                    self.pending.borrow_mut().take();
                    self.push_op(c, Kind::Store, id, 0, 0, 0, inv, resp);
                }
            }
            W::Swap => {
                let c = self.pick_cont();
                let v = self.fresh();
                let id = v.vid();
                let inv = self.begin_write(c, Kind::Swap, id, 0);
                let old = self.call(false, || self.conts[c].swap(v));
                let resp = self.stamp();
                self.pending.borrow_mut().take();
                self.push_op(c, Kind::Swap, id, 0, old.vid(), old.addr() as u64, inv, resp);
                self.keep_owned(old);
            }
            W::Cas => self.do_cas(),
            W::Rcu => self.do_rcu(),
            W::Send => {
                if !self.guards.is_empty() {
                    let i = self.rng.below(self.guards.len() as u64) as usize;
                    let (_, h) = self.guards.swap_remove(i);
                    self.sh.mailbox.lock().unwrap().push(h);
                }
            }
            W::Recv => {
                let got: Vec<Held<V, S>> = std::mem::take(&mut *self.sh.mailbox.lock().unwrap());
                for h in got {
                    verify(&h, "after being moved to another thread");
                    if self.guards.len() < self.sh.profile.max_guards && self.rng.chance(1, 2) {
                        self.guards.push((usize::MAX, h));
                    } else {
                        let g = release(h);
                        self.call(false, || drop(g));
                    }
                }
            }
            W::Verify => {
                for (_, h) in &self.guards {
                    verify(h, "while held");
                }
            }
            W::CacheLoad => self.do_cache_load(),
        }
    }

    /// `Cache::load`: recorded as a read of the container. The value retained inside the cache is
    /// an owner the harness cannot see; it is accounted by address (decremented before the call
    /// that may release it, incremented after the call that retained it).
    pub(crate) fn do_cache_load(&mut self) {
        use arc_swap::cache::Access as CacheAccess;
        let c = self.pick_cont();
        while self.caches.len() < self.conts.len() {
            self.caches.push(None);
        }
        if self.caches[c].is_none() {
            let inv = self.stamp();
            let cont = self.conts[c].clone();
            let cache = self.call(true, || arc_swap::cache::Cache::new(cont));
            let resp = self.stamp();
            let mapped = self.rng.chance(1, 3);
            let mut kind = if mapped { CacheKind::Mapped(cache.map(identity::<V> as fn(&V) -> &V)) } else { CacheKind::Plain(cache) };
            // what it holds right after creation (no revalidation can be observed separately, so
            // this first load is recorded over the whole window)
            let (id, addr) = self.call(true, || {
                let v: &V = match &mut kind {
                    CacheKind::Plain(ca) => ca.load(),
                    CacheKind::Mapped(m) => m.load(),
                };
                (v.vid(), v.addr())
            });
            let resp2 = self.stamp();
            V::note_owner_addr(addr, 1);
            let _ = resp;
            self.push_op(c, Kind::Load, 0, 0, id, addr as u64, inv, resp2);
            self.caches[c] = Some((kind, addr));
            *self.res.borrow_mut().paths.entry("cache.created").or_insert(0) += 1;
            return;
        }
        let (mut kind, retained) = self.caches[c].take().unwrap();
        V::note_owner_addr(retained, -1);
        let inv = self.stamp();
        let (id, addr) = self.call(true, || {
            let v: &V = match &mut kind {
                CacheKind::Plain(ca) => ca.load(),
                CacheKind::Mapped(m) => m.load(),
            };
            (v.vid(), v.addr())
        });
        let resp = self.stamp();
        V::note_owner_addr(addr, 1);
        self.push_op(c, Kind::Load, 0, 0, id, addr as u64, inv, resp);
        {
            let mut res = self.res.borrow_mut();
            *res.paths.entry("cache.loads").or_insert(0) += 1;
            if addr != retained {
                *res.paths.entry("cache.loads_that_observed_a_change").or_insert(0) += 1;
            }
            if matches!(kind, CacheKind::Mapped(_)) {
                *res.paths.entry("cache.loads_mapped").or_insert(0) += 1;
            }
        }
        // sometimes clone the cache and use the clone from now on (the original is dropped)
        if self.rng.chance(1, 8) {
            if let CacheKind::Plain(ca) = &kind {
                let cl = ca.clone();
                V::note_owner_addr(addr, 1);
                let old = std::mem::replace(&mut kind, CacheKind::Plain(cl));
                V::note_owner_addr(addr, -1);
                drop(old);
                *self.res.borrow_mut().paths.entry("cache.cloned").or_insert(0) += 1;
            }
        }
        self.caches[c] = Some((kind, addr));
    }

    fn do_cas(&mut self) {
        let c = self.pick_cont();
        let new = if self.sh.profile.cas_pool && !self.owned.is_empty() && self.rng.chance(1, 4) {
            let o = self.rng.below(self.owned.len() as u64) as usize;
            self.owned[o].v.clone()
        } else {
            self.fresh()
        };
        let new_id = new.vid();
        // Choose `current` and its form.
        let gi = self.guards.iter().position(|(gc, _)| *gc == c);
        let form = self.rng.below(8);
        let inv;
        let cur_addr: u64;
        // identity of the value the caller's live handle denotes (None for a bare address)
        let cur_id: Option<u64>;
        let prev: Guard<V, S>;
        if let (Some(gi), true) = (gi, form < 4) {
            // current from a guard loaded from this container
            match form {
                0 if S::HAS_GUARD_FORMS => {
                    let (_, h) = self.guards.swap_remove(gi);
                    cur_addr = h.g().addr() as u64;
                    cur_id = Some(h.id);
                    let g = release(h);
                    inv = self.begin_write(c, Kind::Cas, new_id, cur_addr);
                    prev = self.call(false, || S::cas_guard_owned(&self.conts[c], g, new));
                }
                1 if S::HAS_GUARD_FORMS => {
                    let h = &self.guards[gi].1;
                    cur_addr = h.g().addr() as u64;
                    cur_id = Some(h.id);
                    inv = self.begin_write(c, Kind::Cas, new_id, cur_addr);
                    prev = self.call(false, || S::cas_guard_ref(&self.conts[c], h.g(), new));
                }
                2 => {
                    let h = &self.guards[gi].1;
                    cur_addr = h.g().addr() as u64;
                    cur_id = Some(h.id);
                    let raw = V::as_ptr(h.g()) as *const V::Base;
                    inv = self.begin_write(c, Kind::Cas, new_id, cur_addr);
                    prev = self.call(false, || self.conts[c].compare_and_swap(raw, new));
                }
                _ => {
                    let h = &self.guards[gi].1;
                    cur_addr = h.g().addr() as u64;
                    cur_id = Some(h.id);
                    inv = self.begin_write(c, Kind::Cas, new_id, cur_addr);
                    prev = self.call(false, || self.conts[c].compare_and_swap(&**h.g(), new));
                }
            }
        } else if !self.owned.is_empty() && form < 6 {
            let o = self.rng.below(self.owned.len() as u64) as usize;
            cur_addr = self.owned[o].v.addr() as u64;
            cur_id = Some(self.owned[o].id);
            if form == 4 {
                let raw = V::as_ptr(&self.owned[o].v);
                inv = self.begin_write(c, Kind::Cas, new_id, cur_addr);
                prev = self.call(false, || self.conts[c].compare_and_swap(raw, new));
            } else {
                let cur = &self.owned[o].v;
                inv = self.begin_write(c, Kind::Cas, new_id, cur_addr);
                prev = self.call(false, || self.conts[c].compare_and_swap(cur, new));
            }
        } else if self.sh.profile.cas_pool && !self.seen_addrs.is_empty() && form == 6 {
            // A raw address seen earlier (may be stale, freed or reused): only compared.
            let a = *self.rng.pick(&self.seen_addrs);
            cur_addr = a;
            cur_id = None;
            let raw = a as usize as *const V::Base;
            inv = self.begin_write(c, Kind::Cas, new_id, cur_addr);
            prev = self.call(false, || self.conts[c].compare_and_swap(raw, new));
        } else {
            // Load first (the common usage), then exchange against what was loaded.
            let g0 = self.call(true, || self.conts[c].load());
            let h0 = hold(g0);
            cur_addr = h0.g().addr() as u64;
            cur_id = Some(h0.id);
            sched::step(hs::OP_GAP);
            inv = self.begin_write(c, Kind::Cas, new_id, cur_addr);
            prev = self.call(false, || self.conts[c].compare_and_swap(&**h0.g(), new));
            drop(release(h0));
        }
        let resp = self.stamp();
        self.pending.borrow_mut().take();
        let ret_id = prev.vid();
        let ret_addr = prev.addr() as u64;
        if let Some(cid) = cur_id {
            // The caller's handle keeps its value alive for the whole call, so a result at the same
            // address is that very value (whatever the form `current` was passed in).
            if ret_addr == cur_addr && cur_addr != 0 && ret_id != cid {
                report(
                    "C05",
                    "cas-succeeded-against-another-value",
                    format!(
                        "compare_and_swap(current = live handle on value {:x} at {:#x}) returned value {:x} at the same address: it succeeded against a different value that took over the address (form #{})",
                        cid, cur_addr, ret_id, form
                    ),
                );
            }
        }
        self.push_op(c, Kind::Cas, new_id, cur_addr, ret_id, ret_addr, inv, resp);
        if self.rng.chance(1, 2) {
            self.keep_guard(c, prev);
        } else {
            let h = hold(prev);
            drop(release(h));
        }
    }

    fn do_rcu(&mut self) {
        let c = self.pick_cont();
        // (entry stamp, exit stamp, input id, input addr, output id)
        let attempts: RefCell<Vec<(u64, u64, u64, u64, u64)>> = RefCell::new(Vec::new());
        let nested: RefCell<Vec<Op>> = RefCell::new(Vec::new());
        let products: RefCell<Vec<(u64, u64)>> = RefCell::new(Vec::new());
        let nest = self.sh.profile.nested_rcu && self.rng.chance(1, 4);
        let other = if self.conts.len() > 1 { (c + 1) % self.conts.len() } else { c };
        let t = self.t;
        // a block of ids for the products of the attempts of this call
        let base = self.next_id + 1;
        self.next_id += 64;
        let sh = self.sh.clone();
        let conts = &self.conts;
        let inv = self.stamp();
        let prev = self.call(false, || {
            conts[c].rcu(|cur: &V| {
                let entry = sh.clock.fetch_add(1, SeqCst);
                sched::step(hs::CLOSURE);
                // the closure is user code: the previous attempt's exchange is over (it failed)
                self.pending.borrow_mut().take();
                crate::fault::hit(crate::fault::K_CLOSURE);
                let in_id = cur.vid();
                let in_addr = cur.addr() as u64;
                if nest {
                    // Re-entrancy: use the same / another container from inside the closure.
                    let i0 = sh.clock.fetch_add(1, SeqCst);
                    let saved = sched::take_marks();
                    let g = conts[other].load();
                    let m = sched::take_marks();
                    sched::or_marks(saved | m);
                    let npath = path_flags(m);
                    let i1 = sh.clock.fetch_add(1, SeqCst);
                    nested.borrow_mut().push(Op { t: t as u8, c: other as u8, kind: Kind::Load, a: 0, cur_addr: 0, ret: g.vid(), ret_addr: g.addr() as u64, inv: i0, resp: i1, path: npath });
                    drop(g);
                }
                let k = attempts.borrow().len() as u64;
                let out = V::fresh(base + k);
                let out_id = out.vid();
                products.borrow_mut().push((out_id, out.addr() as u64));
                self.res.borrow_mut().addr_of.push((out_id, out.addr() as u64));
                let exit = sh.clock.fetch_add(1, SeqCst);
                attempts.borrow_mut().push((entry, exit, in_id, in_addr, out_id));
                // the exchange that follows is in flight until the next closure call or the return
                *self.pending.borrow_mut() = Some(Op { t: t as u8, c: c as u8, kind: Kind::Cas, a: out_id, cur_addr: in_addr, ret: lin::ANY, ret_addr: 0, inv: exit, resp: u64::MAX, path: 0 });
                out
            })
        });
        let resp = self.stamp();
        self.pending.borrow_mut().take();
        let prev_id = prev.vid();
        let prev_addr = prev.addr() as u64;
        let att = attempts.into_inner();
        {
            let mut res = self.res.borrow_mut();
            for p in products.into_inner() {
                res.addr_of.push(p);
            }
            *res.paths.entry("rcu.calls").or_insert(0) += 1;
            if att.len() > 1 {
                *res.paths.entry("rcu.retried").or_insert(0) += 1;
                *res.paths.entry("rcu.extra_attempts").or_insert(0) += att.len() as u64 - 1;
            }
        }
        // initial load, then one compare-and-swap per attempt; nested operations in between.
        let nested = nested.into_inner();
        let mut ni = 0;
        // the path flags of the whole call apply to each of its recorded parts (a superset)
        let call_path = self.last_path.get();
        if let Some(first) = att.first() {
            self.push_op(c, Kind::Load, 0, 0, first.2, first.3, inv, first.0);
        }
        for (k, a) in att.iter().enumerate() {
            while ni < nested.len() && nested[ni].resp < a.1 {
                self.res.borrow_mut().ops.push(nested[ni]);
                ni += 1;
            }
            let (ret, ret_addr, r) = if k + 1 < att.len() { (att[k + 1].2, att[k + 1].3, att[k + 1].0) } else { (prev_id, prev_addr, resp) };
            self.last_path.set(call_path);
            self.push_op(c, Kind::Cas, a.4, a.3, ret, ret_addr, a.1, r);
            if k + 1 < att.len() {
                self.res.borrow_mut().discarded.push(a.4);
            }
        }
        if let Some(last) = att.last() {
            if last.2 != prev_id {
                report("C06", "rcu-return", format!("rcu returned {:x} but its last closure call saw {:x}", prev_id, last.2));
            }
        }
        self.keep_owned(prev);
    }
}

fn path_flags(marks: u128) -> u8 {
    use arc_swap::verif::Site as St;
    let has = |s: St| marks & (1u128 << (s as u16)) != 0;
    let mut pf = 0u8;
    if has(St::ATTEMPT_CONFIRMED) {
        pf |= lin::PATH_FAST;
    }
    if has(St::ATTEMPT_RETURNED) {
        pf |= lin::PATH_RETURNED;
    }
    if has(St::ATTEMPT_PREPAID) {
        pf |= lin::PATH_PREPAID;
    }
    if has(St::FALLBACK_CONFIRMED) {
        pf |= lin::PATH_FB_CONFIRMED;
    }
    if has(St::FALLBACK_HELPED) {
        pf |= lin::PATH_FB_HELPED;
    }
    pf
}

/// Conservation law at a quiescent point with guards alive (ledger rule 3).
pub(crate) fn quiescent_check<V: Val, S: StratExt<V>>(conts: &[Cont<V, S>], fin: &mut Vec<Option<u64>>, when: &str) -> usize {
    let mut stored: HashMap<usize, usize> = HashMap::new();
    for c in conts.iter() {
        let g = c.load();
        let id = g.vid();
        let a = g.addr();
        drop(g);
        fin.push(Some(id));
        if a != 0 {
            *stored.entry(a).or_insert(0) += 1;
        }
    }
    let (_, occ, problems) = node_invariants(false);
    for p in problems {
        report("C02", "node-not-quiescent", format!("{} ({})", p, when));
    }
    // borrow slots holding the null address belong to live guards on the empty value, nothing else
    let zero_slots = *occ.get(&0).unwrap_or(&0) as i64;
    let none_guards = NONE_GUARDS.load(SeqCst);
    if zero_slots > none_guards {
        report(
            "C02",
            "slot-occupied-without-guard",
            format!("{} debt slot(s) hold the null address (a borrow of the empty value) but only {} guard(s) on the empty value are alive ({})", zero_slots, none_guards, when),
        );
    }
    let mut checked = 0;
    if tp::alloc_mode() != AllocMode::Real && V::NAME.contains("Tp") {
        let blocks: HashSet<usize> = tp::registry_snapshot().into_iter().collect();
        for (a, n) in occ.iter() {
            // address 0 = a guard on the empty value (None): legitimately borrowed, nothing to count
            if *a != 0 && !blocks.contains(a) {
                report("C02", "slot-holds-garbage", format!("{} debt slot(s) hold {:#x}, which is no value of this execution ({})", n, a, when));
            }
        }
        for addr in blocks.iter() {
            let o = unsafe { &*(*addr as *const tp::Obj) };
            let live = o.state.load(Relaxed) == tp::LIVE;
            let strong = o.strong.load(Relaxed) as isize;
            let slots = *occ.get(addr).unwrap_or(&0) as isize;
            let st = *stored.get(addr).unwrap_or(&0) as isize;
            let owners = o.owners.load(Relaxed);
            let guards = o.guards.load(Relaxed);
            if live {
                checked += 1;
                if strong + slots != st + owners + guards {
                    report(
                        "C02",
                        "count-conservation",
                        format!(
                            "value {:x}: strong {} + debt slots {} != containers {} + owned handles {} + guards {} ({})",
                            o.id.load(Relaxed), strong, slots, st, owners, guards, when
                        ),
                    );
                }
                if slots > guards {
                    report("C02", "slot-without-guard", format!("value {:x}: {} debt slots but only {} guards alive ({})", o.id.load(Relaxed), slots, guards, when));
                }
            } else if slots != 0 || st != 0 {
                report("C01", "dead-but-referenced", format!("destroyed value {:x} is still in {} slots / {} containers ({})", o.id.load(Relaxed), slots, st, when));
            }
        }
    }
    checked
}

/// End of a long-lived worker: park with guards and handles still held (the last arriver checks
/// the conservation law), then drop everything in a random order, racing with the other threads
/// and with the consumption of the containers.
pub(crate) fn end_phase<V: Val, S: StratExt<V>>(mut w: Worker<V, S>, sh: &Arc<Shared<V, S>>) {
    // Phase end: everybody parks with guards and handles still held; the last arriver
    // checks the conservation law.
    {
        let conts = &w.conts;
        let sh3 = sh.clone();
        sh.b1.wait(|| {
            let mut fin = Vec::new();
            let n = quiescent_check(conts, &mut fin, "all threads parked, guards held");
            runner::count("q1.objects_checked", n as u64);
            *sh3.fin.lock().unwrap() = fin;
            sh3.q1_done.store(true, SeqCst);
        });
    }
    sh.b2.wait(|| {});
    // Drop everything in a random order, racing with the other threads and with the drop
    // of the containers (the last holder consumes the container).
    let mut order: Vec<u8> = Vec::new();
    order.extend(std::iter::repeat(0).take(w.guards.len()));
    order.extend(std::iter::repeat(1).take(w.owned.len()));
    order.extend(std::iter::repeat(2).take(w.conts.len()));
    let mut caches: Vec<(CacheKind<V, S>, usize)> = w.caches.drain(..).flatten().collect();
    order.extend(std::iter::repeat(3).take(caches.len()));
    for i in (1..order.len()).rev() {
        let j = w.rng.below(i as u64 + 1) as usize;
        order.swap(i, j);
    }
    for what in order {
        match what {
            0 => {
                let (_, h) = w.guards.pop().unwrap();
                let g = release(h);
                w.call(false, || drop(g));
            }
            1 => {
                let o = w.owned.pop().unwrap();
                drop(disown(o));
            }
            3 => {
                // a cache releases the value it retains (and possibly, as the last holder, the container)
                let (kind, retained) = caches.pop().unwrap();
                V::note_owner_addr(retained, -1);
                w.call(false, || drop(kind));
            }
            _ => {
                let c = w.conts.pop().unwrap();
                let into = w.rng.chance(1, 2);
                match Arc::try_unwrap(c) {
                    Ok(cont) => {
                        if into {
                            let v = w.call(false, || cont.into_inner());
                            let o = own(v);
                            sched::step(hs::OP_GAP);
                            drop(disown(o));
                        } else {
                            w.call(false, || drop(cont));
                        }
                    }
                    Err(arc) => w.call(false, || drop(arc)),
                }
            }
        }
    }
    // leftovers in the mailbox are dropped by whoever comes last
    let left: Vec<Held<V, S>> = std::mem::take(&mut *sh.mailbox.lock().unwrap());
    for h in left {
        let g = release(h);
        w.call(false, || drop(g));
    }
    let mut res = w.res.into_inner();
    res.completed = true;
    sh.results.lock().unwrap().push(res);
}

#[derive(Clone, Debug)]
pub struct ExecCfg {
    pub exec_no: u64,
    pub wseed: u64,
    pub sseed: u64,
    pub mode: Mode,
    pub record: bool,
    pub step_budget: u32,
}

pub struct ExecOut {
    pub ops: usize,
    pub trace_hash: u64,
    pub nontrivial: bool,
    pub steps: u64,
    pub desc: Value,
}

/// One execution of the core workload.
pub fn run_exec<V: Val, S: StratExt<V>>(p: &Profile, cfg: &ExecCfg) -> ExecOut
where
    Guard<V, S>: Send,
{
    let mut rng = Rng::new(cfg.wseed);
    let nt = rng.range(p.min_threads as u64, p.max_threads as u64) as usize;
    let nc = rng.range(1, p.max_conts as u64) as usize;
    let viol_before = crate::viol::count();
    // containers with initial values
    let mut init_ids = Vec::new();
    let mut addr_of: HashMap<u64, u64> = HashMap::new();
    let mut conts: Vec<Cont<V, S>> = Vec::new();
    for c in 0..nc {
        let v = if rng.below(16) < p.none_p { V::none() } else { V::fresh(id_block() + 1) };
        init_ids.push(v.vid());
        addr_of.insert(v.vid(), v.addr() as u64);
        conts.push(Arc::new(ArcSwapAny::<V, S>::new(v)));
    }
    let sh = Arc::new(Shared::<V, S> {
        clock: AtomicU64::new(1),
        mailbox: Mutex::new(Vec::new()),
        b1: HBarrier::new(nt),
        b2: HBarrier::new(nt),
        results: Mutex::new(Vec::new()),
        fin: Mutex::new(Vec::new()),
        q1_done: AtomicBool::new(false),
        stop: AtomicBool::new(false),
        profile: p.clone(),
        exec_no: cfg.exec_no,
        step_budget: cfg.step_budget,
    });
    // roles and op counts
    let mut plans = Vec::new();
    for t in 0..nt {
        let role = rng.weighted(&p.roles);
        let nops = rng.range(p.ops_lo as u64, p.ops_hi as u64) as usize;
        plans.push((t, role, nops, rng.next()));
    }
    let strat = if cfg.mode == Mode::Token {
        let mut srng = Rng::new(cfg.sseed);
        let s = match srng.below(8) {
            0..=1 => Strat::Random { sw: *srng.pick(&[1, 2, 4, 8, 12, 16]) },
            2..=3 => Strat::Windows { p_in: *srng.pick(&[8, 12, 16]), p_out: *srng.pick(&[0, 1, 2]) },
            4..=5 => Strat::Pct { d: srng.range(1, 3) as u32, horizon: (nt * p.ops_hi * 25) as u64 },
            _ => {
                let readers: Vec<usize> = plans.iter().filter(|x| x.1 != 1).map(|x| x.0).collect();
                // readers are the usual victims (their windows are the narrow ones), but writers have windows
                // too (compare_and_swap between its load and its exchange)
                let victim = if readers.is_empty() || srng.chance(1, 3) { srng.below(nt as u64) as usize } else { *srng.pick(&readers) };
                Strat::Adversary { victim, k: srng.range(1, 3) as u32, p: *srng.pick(&[2, 4, 8, 16]) }
            }
        };
        sched::token_prepare(nt, cfg.sseed, s.clone(), cfg.record);
        Some(s)
    } else {
        None
    };
    let desc = json!({"workload": "core", "profile": p.name, "value": V::NAME, "strategy": S::NAME, "exec_no": cfg.exec_no, "wseed": cfg.wseed,
        "sseed": cfg.sseed, "mode": format!("{:?}", cfg.mode), "threads": nt, "containers": nc, "sched": format!("{:?}", strat),
        "alloc": format!("{:?}", tp::alloc_mode())});
    runner::set_current(desc.clone());

    let mut handles = Vec::new();
    for (t, role, nops, tseed) in plans.iter().cloned() {
        let myconts: Vec<Cont<V, S>> = conts.iter().cloned().collect();
        let sh2 = sh.clone();
        handles.push(spawn_worker(t, tseed, move || {
            let weights = match role {
                0 => sh2.profile.reader,
                1 => sh2.profile.writer,
                _ => sh2.profile.mixed,
            };
            let mut w = Worker::<V, S> {
                t,
                rng: Rng::new(tseed),
                conts: myconts,
                sh: sh2.clone(),
                guards: Vec::new(),
                owned: Vec::new(),
                seen_addrs: Vec::new(),
                next_id: id_block(),
                res: RefCell::new(WorkerResult { t, ..Default::default() }),
                last_path: std::cell::Cell::new(0),
                budgets: std::cell::Cell::new((sh2.step_budget, sh2.step_budget)),
                last_steps: std::cell::Cell::new(0),
                caches: Vec::new(),
                pending: RefCell::new(None),
            };
            let cache_p = sh2.profile.cache_p;
            for _ in 0..nops {
                let op = if cache_p > 0 && w.rng.below(16) < cache_p { W::CacheLoad } else { ALLW[w.rng.weighted(&weights)] };
                w.do_op(op);
                sched::step(hs::OP_GAP);
            }
            end_phase(w, &sh2);
        }));
    }
    drop(conts);
    if cfg.mode == Mode::Token {
        sched::token_start();
    }
    let mut all_ok = true;
    for h in handles {
        match h.join() {
            Ok(true) => {}
            _ => all_ok = false,
        }
    }
    // leftovers in the mailbox if the last thread raced
    let left: Vec<Held<V, S>> = std::mem::take(&mut *sh.mailbox.lock().unwrap());
    for h in left {
        drop(release(h));
    }
    let (trace_hash, steps) = if cfg.mode == Mode::Token {
        let inn = unsafe { sched::inner() };
        (inn.trace_hash, inn.nsteps)
    } else {
        (0, 0)
    };

    analyze::<V, S>(p, &desc, &sh, all_ok, init_ids, addr_of, nt, nc, cfg.mode, cfg.record, viol_before, trace_hash, steps)
}


/// After all threads were joined: structural invariants, leaks, histories.
#[allow(clippy::too_many_arguments)]
pub(crate) fn analyze<V: Val, S: StratExt<V>>(
    p: &Profile,
    desc: &Value,
    sh: &Arc<Shared<V, S>>,
    all_ok: bool,
    init_ids: Vec<u64>,
    mut addr_of: HashMap<u64, u64>,
    nt: usize,
    nc: usize,
    mode: Mode,
    record: bool,
    viol_before: usize,
    trace_hash: u64,
    steps: u64,
) -> ExecOut {
    let desc = desc.clone();
    // ---- after the execution: Q2 and histories
    let results = std::mem::take(&mut *sh.results.lock().unwrap());
    let mut nops = 0;
    let mut out = ExecOut { ops: 0, trace_hash, nontrivial: false, steps, desc: desc.clone() };
    if !all_ok {
        runner::count("exec.thread_panicked", 1);
        // The state after a panic is judged by the property that owns panics (C13 via the hook, or
        // the harness error path); the remaining oracles are skipped for this execution.
        let leaks = tp::end_epoch();
        runner::count("exec.skipped_after_panic.leaked_objects", leaks.len() as u64);
        runner::collect_violations(&desc);
        return out;
    }
    let (nnodes, _occ, problems) = node_invariants(true);
    runner::maximum("nodes", nnodes as u64);
    for pb in problems {
        report("C02", "node-not-quiescent", format!("{} (after all threads were joined)", pb));
    }
    for leak in tp::end_epoch() {
        report("C02", "leak", format!("value never destroyed although nothing owns it any more: {}", leak));
    }
    // histories per container
    let fin = sh.fin.lock().unwrap().clone();
    let mut discarded: HashSet<u64> = HashSet::new();
    let mut per_cont: Vec<Vec<Vec<Op>>> = vec![vec![Vec::new(); nt]; nc];
    let mut flat: Vec<Op> = Vec::new();
    for r in &results {
        for (id, a) in &r.addr_of {
            addr_of.insert(*id, *a);
        }
        for d in &r.discarded {
            discarded.insert(*d);
        }
        for op in &r.ops {
            per_cont[op.c as usize][r.t].push(*op);
            flat.push(*op);
            nops += 1;
        }
        for (k, v) in &r.paths {
            runner::count(k, *v);
        }
        runner::maximum("max_steps.load", r.max_load_steps as u64);
        runner::maximum("max_steps.write", r.max_write_steps as u64);
    }
    out.ops = nops;
    for op in &flat {
        if op.kind != Kind::Store && op.ret != 0 && discarded.contains(&op.ret) {
            report("C06", "discarded-visible", format!("[{}] observed the product of a discarded rcu attempt", op.brief()));
        }
    }
    let mut hist_hash = 0u64;
    for c in 0..nc {
        let threads = &per_cont[c];
        let f = fin.get(c).cloned().flatten();
        let all: Vec<Op> = threads.concat();
        // non-trivial: some load overlaps a write of another thread
        let writes: Vec<&Op> = all.iter().filter(|o| o.kind != Kind::Load).collect();
        for l in all.iter().filter(|o| o.kind == Kind::Load) {
            if writes.iter().any(|w| w.t != l.t && l.inv < w.resp && w.inv < l.resp) {
                out.nontrivial = true;
                runner::count("loads.overlapping_a_write", 1);
            }
        }
        let mut sorted = all.clone();
        sorted.sort_by_key(|o| o.inv);
        for o in &sorted {
            hist_hash = mix(hist_hash, (o.t as u64) << 56 ^ (o.kind as u64) << 48 ^ o.ret.wrapping_mul(31) ^ o.a);
        }
        if std::env::var_os("ASV_DUMP_HIST").is_some() {
            let hist: Vec<String> = sorted.iter().map(|o| o.brief()).collect();
            eprintln!("HIST container {} init {:x} final {:?}: {}", c, init_ids[c], f, hist.join(" | "));
        }
        // Known mechanism D5 (DESIGN.md section 3): a reader's stale first read P (value A of this
        // container, since destroyed) is published as a debt; a writer of ANOTHER container, whose
        // removed value B lives at the reused address P, pays that debt; the reader takes the
        // "prepaid" branch and returns B. Such loads are reported under their own, precise kind
        // and taken out of the history, so that everything else is still checked.
        let mut written: HashSet<u64> = HashSet::new();
        written.insert(init_ids[c]);
        for o in all.iter() {
            if o.kind != Kind::Load {
                written.insert(o.a);
            }
        }
        let written_addrs: HashSet<u64> = written.iter().filter(|id| **id != 0).filter_map(|id| addr_of.get(id).copied()).collect();
        let mut d5: Vec<(u8, u64)> = Vec::new();
        for o in all.iter() {
            let reads = o.kind == Kind::Load || (o.kind == Kind::Cas && o.ret_addr != o.cur_addr);
            if !reads || o.ret == 0 || o.ret == lin::ANY || written.contains(&o.ret) {
                continue;
            }
            let reused_addr = written_addrs.contains(&o.ret_addr);
            let prepaid_self = o.path & lin::PATH_PREPAID != 0;
            let prepaid_helper = o.path & lin::PATH_FB_HELPED != 0
                && writes.iter().any(|w| w.t != o.t && w.path & lin::PATH_PREPAID != 0 && o.inv < w.resp && w.inv < o.resp);
            if reused_addr && (prepaid_self || prepaid_helper) {
                d5.push((o.t, o.inv));
                report(
                    "C12",
                    "prepaid-stale-debt-foreign-value",
                    format!(
                        "[{}] took the prepaid branch of the fast path{} and returned value {:x}, which was never stored in container {} but lives at address {:#x} where an earlier value of this container used to live (address reuse): a writer of another container paid the reader's stale debt",
                        o.brief(), if prepaid_self { "" } else { " (inside the helping writer's replacement load)" }, o.ret, c, o.ret_addr
                    ),
                );
            }
        }
        let filtered: Vec<Vec<Op>>;
        let threads = if d5.is_empty() {
            threads
        } else {
            filtered = threads.iter().map(|th| th.iter().filter(|o| !d5.contains(&(o.t, o.inv))).cloned().collect()).collect();
            &filtered
        };
        let mut verdict = lin::check_open(threads, init_ids[c], f, &addr_of, 400_000);
        if let Verdict::Violation(_) = verdict {
            // Second look for the known mechanism D5 when values are stored in several containers
            // (so "never stored here" does not apply): a read on the prepaid path (its own or its
            // helper's) that returned value V while a writer of ANOTHER container, which held V, was
            // active in the same window. If the history without those reads is linearizable, they
            // are reported as D5 instead.
            let mut cands: Vec<(u8, u64)> = Vec::new();
            let mut cand_ops: Vec<Op> = Vec::new();
            for o in threads.iter().flatten() {
                let reads = o.kind == Kind::Load || (o.kind == Kind::Cas && o.ret_addr != o.cur_addr);
                if !reads || o.ret == 0 || o.ret == lin::ANY {
                    continue;
                }
                let prepaid_self = o.path & lin::PATH_PREPAID != 0;
                let prepaid_helper = o.path & lin::PATH_FB_HELPED != 0
                    && writes.iter().any(|w| w.t != o.t && w.path & lin::PATH_PREPAID != 0 && o.inv < w.resp && w.inv < o.resp);
                if !(prepaid_self || prepaid_helper) {
                    continue;
                }
                let foreign = (0..nc).filter(|c2| *c2 != c).any(|c2| {
                    let held = init_ids[c2] == o.ret || per_cont[c2].iter().flatten().any(|w| w.kind != Kind::Load && w.a == o.ret);
                    held && per_cont[c2].iter().flatten().any(|w| w.kind != Kind::Load && w.inv < o.resp && o.inv < w.resp)
                });
                if foreign {
                    cands.push((o.t, o.inv));
                    cand_ops.push(*o);
                }
            }
            if !cands.is_empty() {
                let without: Vec<Vec<Op>> = threads.iter().map(|th| th.iter().filter(|o| !cands.contains(&(o.t, o.inv))).cloned().collect()).collect();
                if let Verdict::Ok = lin::check_open(&without, init_ids[c], f, &addr_of, 400_000) {
                    for o in cand_ops {
                        report(
                            "C12",
                            "prepaid-stale-debt-foreign-value",
                            format!(
                                "[{}] took the prepaid branch of the fast path and returned value {:x}, which was never stored in container {} but lives at address {:#x} where an earlier value of this container used to live (address reuse): a writer of another container paid the reader's stale debt [second look: the value was also stored in this container at another time, and in another container whose writer was active during this load; without this read the history is linearizable]",
                                o.brief(), o.ret, c, o.ret_addr
                            ),
                        );
                    }
                    verdict = Verdict::Ok;
                }
            }
        }
        match verdict {
            Verdict::Ok => runner::count("histories.linearizable", 1),
            Verdict::Violation(msg) => {
                let cas = all.iter().any(|o| o.kind == Kind::Cas);
                let prop = match p.name.as_str() {
                    "c05" if cas => "C05",
                    "c06" => "C06",
                    "c04" => "C04",
                    "c12" => "C12",
                    "c16" => "C16",
                    _ => "C03",
                };
                let hist: Vec<String> = sorted.iter().map(|o| o.brief()).collect();
                report(prop, "not-linearizable", format!("container {} (initial {:x}, final {:?}): {}; history: {}", c, init_ids[c], f, msg, hist.join(" | ")));
            }
            Verdict::Inconclusive(msg) => runner::inconclusive(json!({"checker": msg, "execution": desc})),
        }
        let (edges, err) = lin::chain_check(&all, init_ids[c]);
        runner::count("chain.edges", edges as u64);
        if let Some(e) = err {
            report("C04", "chain", format!("container {}: {}", c, e));
        }
    }
    if mode != Mode::Token {
        out.trace_hash = hist_hash;
    }
    if runner::with(|r| r.samples.len()) < 3 && nops > 0 {
        let mut sorted = flat.clone();
        sorted.sort_by_key(|o| o.inv);
        let hist: Vec<String> = sorted.iter().take(40).map(|o| o.brief()).collect();
        runner::sample(json!({"execution": desc, "history": hist, "trace_hash": format!("{:x}", out.trace_hash), "steps": steps}), 3);
    }
    if crate::viol::count() != viol_before {
        let mut sorted = flat.clone();
        sorted.sort_by_key(|o| o.inv);
        let hist: Vec<String> = sorted.iter().map(|o| o.brief()).collect();
        let mut d = desc.clone();
        d["history"] = json!(hist);
        if record {
            let inn = unsafe { sched::inner() };
            let tr: Vec<String> = inn.trace.iter().map(|(t, s)| format!("{}:{}", t, sched::site_name(*s))).collect();
            d["trace"] = json!(tr);
        }
        runner::collect_violations(&d);
    }
    out
}
