//! Per-process bookkeeping: result report (JSON), panic classification, watchdog, abort paths.

use std::cell::Cell;
use std::collections::{BTreeMap, HashSet};
use std::sync::atomic::Ordering::*;
use std::sync::atomic::{AtomicBool, AtomicU64};
use std::sync::Mutex;

use serde_json::{json, Value};

use crate::sched;

/// Payload type of panics injected by the harness (fault plans).
pub struct InjectedPanic(pub &'static str);

thread_local! {
    static PAYALL_DEPTH: Cell<u32> = const { Cell::new(0) };
    static IN_CRATE_CALL: Cell<bool> = const { Cell::new(false) };
}

pub static INJECTED: AtomicU64 = AtomicU64::new(0);
/// Sequential workloads: the main thread is inside a crate call (for the watchdog).
pub static SEQ_INCALL: AtomicBool = AtomicBool::new(false);
pub static MAIN_TID: std::sync::atomic::AtomicI64 = std::sync::atomic::AtomicI64::new(0);
pub static CRATE_PANICS: AtomicU64 = AtomicU64::new(0);
pub static HARNESS_PANICS: AtomicU64 = AtomicU64::new(0);

pub fn note_injected_panic() {
    INJECTED.fetch_add(1, Relaxed);
}

pub fn in_payall() -> bool {
    PAYALL_DEPTH.with(|d| d.get() > 0)
}

pub fn payall_mark(begin: bool) {
    PAYALL_DEPTH.with(|d| d.set(if begin { d.get() + 1 } else { d.get().saturating_sub(1) }));
}

pub fn payall_reset() {
    PAYALL_DEPTH.with(|d| d.set(0));
}

pub fn set_in_call(v: bool) {
    IN_CRATE_CALL.with(|c| c.set(v));
    sched::set_incall(v);
}

pub fn in_call() -> bool {
    IN_CRATE_CALL.with(|c| c.get())
}

#[derive(Default)]
pub struct Report {
    pub workload: String,
    pub params: Value,
    pub counters: BTreeMap<String, u64>,
    pub maxima: BTreeMap<String, u64>,
    pub samples: Vec<Value>,
    pub violations: Vec<Value>,
    pub inconclusive: Vec<Value>,
    pub distinct: HashSet<u64>,
    pub execs: u64,
    pub ops: u64,
    pub current: Value,
    pub out: String,
    pub t0: f64,
    pub crate_panics: Vec<String>,
    pub extra: BTreeMap<String, Value>,
}

pub static REPORT: Mutex<Option<Report>> = Mutex::new(None);
static FINISHED: AtomicBool = AtomicBool::new(false);

pub fn with<R>(f: impl FnOnce(&mut Report) -> R) -> R {
    let mut g = REPORT.lock().unwrap_or_else(|e| e.into_inner());
    if g.is_none() {
        *g = Some(Report::default());
    }
    f(g.as_mut().unwrap())
}

pub fn init(workload: &str, params: Value, out: &str) {
    with(|r| {
        r.workload = workload.to_string();
        r.params = params;
        r.out = out.to_string();
        r.t0 = crate::util::now_s();
    });
    if !cfg!(miri) {
        MAIN_TID.store(unsafe { libc::syscall(libc::SYS_gettid) } as i64, Relaxed);
    }
    install_panic_hook();
}

pub fn count(name: &str, n: u64) {
    if n != 0 {
        with(|r| *r.counters.entry(name.to_string()).or_insert(0) += n);
    }
}

pub fn maximum(name: &str, v: u64) {
    with(|r| {
        let e = r.maxima.entry(name.to_string()).or_insert(0);
        if v > *e {
            *e = v;
        }
    });
}

pub fn distinct(h: u64) {
    with(|r| {
        r.distinct.insert(h);
    });
}

pub fn distinct_str(x: &str) {
    let mut h = 0xcbf2_9ce4_8422_2325u64;
    for b in x.bytes() {
        h = (h ^ b as u64).wrapping_mul(0x100_0000_01b3);
    }
    distinct(h);
}

pub fn sample(v: Value, cap: usize) {
    with(|r| {
        if r.samples.len() < cap {
            r.samples.push(v);
        }
    });
}

pub fn set_current(v: Value) {
    with(|r| r.current = v);
}

pub fn inconclusive(v: Value) {
    with(|r| {
        if r.inconclusive.len() < 50 {
            r.inconclusive.push(v)
        }
    });
    count("inconclusive", 1);
}

/// Move the violations raised by the monitors since the last call into the report, attaching the
/// witness (description of the execution that produced them). Returns how many there were.
/// While set, reports stay queued in `crate::viol` (the C18 workload folds them itself).
pub static HOLD_VIOLATIONS: AtomicBool = AtomicBool::new(false);

pub fn collect_violations(witness: &Value) -> usize {
    if HOLD_VIOLATIONS.load(SeqCst) {
        return 0;
    }
    let vs = crate::viol::take();
    let n = vs.len();
    if n > 0 {
        with(|r| {
            for v in vs {
                if r.violations.len() < 300 {
                    r.violations.push(json!({"prop": v.prop, "kind": v.kind, "detail": v.detail, "witness": witness}));
                }
            }
        });
    }
    n
}

pub fn violation(prop: &str, kind: &str, detail: String, witness: &Value) {
    with(|r| {
        if r.violations.len() < 300 {
            r.violations.push(json!({"prop": prop, "kind": kind, "detail": detail, "witness": witness}));
        }
    });
}

pub fn finish() -> i32 {
    if FINISHED.swap(true, SeqCst) {
        return 0;
    }
    sched::flush_thread_stats();
    let cur = with(|r| r.current.clone());
    collect_violations(&cur);
    let (text, out, nviol) = with(|r| {
        let hits: BTreeMap<String, u64> = sched::site_hits().into_iter().collect();
        let v = json!({
            "workload": r.workload,
            "params": r.params,
            "execs": r.execs,
            "ops": r.ops,
            "distinct": r.distinct.len(),
            "counters": r.counters,
            "maxima": r.maxima,
            "site_hits": hits,
            "samples": r.samples,
            "violations": r.violations,
            "inconclusive": r.inconclusive,
            "crate_panics": r.crate_panics,
            "ledger": {
                "allocs": crate::tp::ALLOCS.load(Relaxed),
                "destroys": crate::tp::DESTROYS.load(Relaxed),
                "incs": crate::tp::INCS.load(Relaxed),
                "decs": crate::tp::DECS.load(Relaxed),
                "destroy_in_payall": crate::tp::DESTROY_IN_PAYALL.load(Relaxed),
                "injected_panics": INJECTED.load(Relaxed),
            },
            "wall_s": crate::util::now_s() - r.t0,
        });
        let mut v = v;
        for (k, x) in r.extra.iter() {
            v[k] = x.clone();
        }
        (serde_json::to_string(&v).unwrap(), r.out.clone(), r.violations.len())
    });
    if out.is_empty() || out == "-" {
        println!("{}", text);
    } else if let Err(e) = std::fs::write(&out, &text) {
        eprintln!("cannot write {}: {}", out, e);
        println!("{}", text);
    }
    if nviol > 0 {
        3
    } else {
        0
    }
}

/// A monitor decided that the process cannot continue (e.g. a call that will never return).
pub fn abort_with_violation() -> ! {
    // attach the tail of the recorded schedule (replay runs record it) to the witness
    if sched::mode() == sched::Mode::Token && sched::tid() != sched::NOT_WORKER {
        let inn = unsafe { sched::inner() };
        if inn.record && !inn.trace.is_empty() {
            let n = inn.trace.len();
            let tail: Vec<String> = inn.trace[n.saturating_sub(400)..].iter().map(|(t, s)| format!("{}:{}", t, sched::site_name(*s))).collect();
            with(|r| {
                r.current["trace"] = json!(tail);
                r.current["trace_note"] = json!(format!("last {} of {} recorded steps", tail.len(), n));
            });
        }
    }
    let code = finish();
    std::process::exit(if code == 0 { 3 } else { code });
}

pub fn abort_after_panic() -> ! {
    let code = finish();
    let harness = HARNESS_PANICS.load(Relaxed);
    if harness > 0 && code == 0 {
        eprintln!("HARNESS-ERROR: a worker died from a panic in harness code");
        std::process::exit(4);
    }
    std::process::exit(if code == 0 { 3 } else { code });
}

fn install_panic_hook() {
    std::panic::set_hook(Box::new(|info| {
        if info.payload().downcast_ref::<InjectedPanic>().is_some() {
            return;
        }
        let msg = if let Some(s) = info.payload().downcast_ref::<&str>() {
            s.to_string()
        } else if let Some(s) = info.payload().downcast_ref::<String>() {
            s.clone()
        } else {
            "<non-string panic>".to_string()
        };
        let loc = info.location().map(|l| format!("{}:{}", l.file(), l.line())).unwrap_or_default();
        let in_crate = loc.contains("/repo/") || loc.contains("arc-swap") || loc.contains("arc_swap");
        if in_crate {
            CRATE_PANICS.fetch_add(1, Relaxed);
            let text = format!("panic '{}' at {}", msg, loc);
            // Called from the panicking thread; the report lock is never held across crate calls.
            with(|r| {
                if r.crate_panics.len() < 20 {
                    r.crate_panics.push(text.clone());
                }
            });
            // also on stderr: if the panic cannot unwind (inside a destructor, say) the process aborts before any report is written
            eprintln!("CRATE-PANIC {}", text.replace('\n', " "));
            crate::viol::report("C13", "crate-panic", text);
            crate::viol::POISONED.store(true, Relaxed);
        } else {
            HARNESS_PANICS.fetch_add(1, Relaxed);
            eprintln!("HARNESS-PANIC '{}' at {} (thread {})", msg, loc, sched::tid());
        }
    }));
}

/// Watchdog thread: if nothing moves for `stall_s` seconds, look at the token holder and classify.
/// Exit codes: 96 = a thread is stuck inside a crate call (blocked or spinning) -> progress
/// violation; 98 = stalled for an unknown reason -> inconclusive.
pub fn start_watchdog(stall_s: u64) {
    if cfg!(miri) {
        return;
    }
    std::thread::Builder::new()
        .name("watchdog".into())
        .spawn(move || {
            let mut last = sched::PROGRESS.load(Relaxed);
            let mut since = std::time::Instant::now();
            loop {
                std::thread::sleep(std::time::Duration::from_millis(250));
                if FINISHED.load(Relaxed) {
                    return;
                }
                let now = sched::PROGRESS.load(Relaxed);
                if now != last {
                    last = now;
                    since = std::time::Instant::now();
                    continue;
                }
                if since.elapsed().as_secs() < stall_s {
                    continue;
                }
                diagnose_stall();
            }
        })
        .expect("spawn watchdog");
}

fn task_stat(tid: i64) -> Option<(char, u64)> {
    let s = std::fs::read_to_string(format!("/proc/self/task/{}/stat", tid)).ok()?;
    let rest = &s[s.rfind(')')? + 2..];
    let f: Vec<&str> = rest.split_whitespace().collect();
    let state = f.first()?.chars().next()?;
    let utime: u64 = f.get(11)?.parse().ok()?;
    let stime: u64 = f.get(12)?.parse().ok()?;
    Some((state, utime + stime))
}

fn diagnose_stall() -> ! {
    let tokmode = sched::mode() == sched::Mode::Token;
    let mut verdict = "unknown".to_string();
    let mut detail = String::new();
    if tokmode {
        let holder = sched::cur();
        if holder < sched::MAXT {
            let ostid = sched::tok().ostid[holder].load(Relaxed);
            let incall = sched::tok().incall[holder].load(Relaxed);
            let mut states = Vec::new();
            let mut cpu = Vec::new();
            for _ in 0..4 {
                if let Some((st, t)) = task_stat(ostid) {
                    states.push(st);
                    cpu.push(t);
                }
                std::thread::sleep(std::time::Duration::from_millis(500));
            }
            let moved = sched::PROGRESS.load(Relaxed);
            detail = format!(
                "token holder {} (os tid {}) in_crate_call={} states={:?} cpu_ticks={:?} progress={}",
                holder, ostid, incall, states, cpu, moved
            );
            if incall && states.len() == 4 {
                if states.iter().all(|s| *s == 'S' || *s == 'D') {
                    verdict = "blocked".into();
                } else if states.iter().all(|s| *s == 'R') && cpu[3] > cpu[0] + 100 {
                    verdict = "spinning".into();
                }
            }
        } else {
            detail = format!("no token holder (cur={:#x})", holder);
        }
    } else if SEQ_INCALL.load(Relaxed) {
        // sequential workload: the main thread is inside a crate call and nothing moves
        let tid = MAIN_TID.load(Relaxed);
        let mut states = Vec::new();
        let mut cpu = Vec::new();
        for _ in 0..4 {
            if let Some((st, t)) = task_stat(tid) {
                states.push(st);
                cpu.push(t);
            }
            std::thread::sleep(std::time::Duration::from_millis(500));
        }
        detail = format!("sequential workload: main thread (os tid {}) inside a crate call, states={:?} cpu_ticks={:?}", tid, states, cpu);
        if states.len() == 4 {
            if states.iter().all(|s| *s == 'S' || *s == 'D') {
                verdict = "blocked".into();
            } else if states.iter().all(|s| *s == 'R') && cpu[3] > cpu[0] + 100 {
                verdict = "spinning".into();
            }
        }
    } else {
        detail = "FREE mode: no operation completed".into();
    }
    let cur = with(|r| r.current.clone());
    if verdict == "blocked" || verdict == "spinning" {
        let prop = match sched::BUDGET_PROP.load(Relaxed) {
            8 => "C08",
            13 => "C13",
            _ => "C09",
        };
        violation(prop, &format!("stall-{}", verdict), detail.clone(), &cur);
        eprintln!("STALL verdict={} {}", verdict, detail);
        let _ = finish();
        std::process::exit(96);
    }
    inconclusive(json!({"stall": detail, "execution": cur}));
    eprintln!("STALL verdict=unknown {}", detail);
    let _ = finish();
    std::process::exit(98);
}
