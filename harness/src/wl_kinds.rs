//! Pointer-kind laws (C15): a finite grid of {pointer kind} x {pointee type} x {count state},
//! run exhaustively: raw round trip preserves identity and counts, `as_ptr` agrees with
//! `into_ptr`, `inc` / `dec` move exactly one reference, the empty values map to null and back and
//! are never counted, container round trips preserve identity and counts, a container of `Weak`
//! does not keep its target alive, distinct objects have distinct addresses (ZSTs included).
//! Under Miri / ASan "never dereferenced" is decided by the tool.

use std::rc::{Rc, Weak as RcWeak};
use std::sync::{Arc, Weak};

use arc_swap::{ArcSwap, ArcSwapAny, ArcSwapOption, Guard, RefCnt};
use serde_json::json;

use crate::runner;

/// What the laws need to observe about a pointer kind.
pub trait Kind: RefCnt + Clone {
    const NAME: &'static str;
    /// (strong, weak) of the target; (0, 0) for the empty value.
    fn counts(&self) -> (usize, usize);
    fn same(&self, other: &Self) -> bool;
    fn is_empty(&self) -> bool;
    /// Which of the two counts a clone of this pointer kind adds to: 0 = strong, 1 = weak.
    const COUNTED: usize;
}

impl<T> Kind for Arc<T> {
    const NAME: &'static str = "Arc";
    const COUNTED: usize = 0;
    fn counts(&self) -> (usize, usize) {
        (Arc::strong_count(self), Arc::weak_count(self))
    }
    fn same(&self, o: &Self) -> bool {
        Arc::ptr_eq(self, o)
    }
    fn is_empty(&self) -> bool {
        false
    }
}

impl<T> Kind for Rc<T> {
    const NAME: &'static str = "Rc";
    const COUNTED: usize = 0;
    fn counts(&self) -> (usize, usize) {
        (Rc::strong_count(self), Rc::weak_count(self))
    }
    fn same(&self, o: &Self) -> bool {
        Rc::ptr_eq(self, o)
    }
    fn is_empty(&self) -> bool {
        false
    }
}

impl<T> Kind for Weak<T> {
    const NAME: &'static str = "Weak";
    const COUNTED: usize = 1;
    fn counts(&self) -> (usize, usize) {
        (Weak::strong_count(self), Weak::weak_count(self))
    }
    fn same(&self, o: &Self) -> bool {
        Weak::ptr_eq(self, o)
    }
    fn is_empty(&self) -> bool {
        Weak::ptr_eq(self, &Weak::new())
    }
}

impl<T> Kind for RcWeak<T> {
    const NAME: &'static str = "rc::Weak";
    const COUNTED: usize = 1;
    fn counts(&self) -> (usize, usize) {
        (RcWeak::strong_count(self), RcWeak::weak_count(self))
    }
    fn same(&self, o: &Self) -> bool {
        RcWeak::ptr_eq(self, o)
    }
    fn is_empty(&self) -> bool {
        RcWeak::ptr_eq(self, &RcWeak::new())
    }
}

impl<K: Kind> Kind for Option<K> {
    const NAME: &'static str = "Option";
    const COUNTED: usize = K::COUNTED;
    fn counts(&self) -> (usize, usize) {
        self.as_ref().map(|k| k.counts()).unwrap_or((0, 0))
    }
    fn same(&self, o: &Self) -> bool {
        match (self, o) {
            (None, None) => true,
            (Some(a), Some(b)) => a.same(b),
            _ => false,
        }
    }
    fn is_empty(&self) -> bool {
        self.is_none()
    }
}

fn fail(kind: &str, pointee: &str, state: &str, law: &str, detail: String) {
    crate::viol::report("C15", law, format!("kind={} pointee={} state={}: {}", kind, pointee, state, detail));
    runner::collect_violations(&json!({"workload": "kinds", "kind": kind, "pointee": pointee, "state": state, "law": law}));
}

/// Note: a weak count as reported by `Arc::weak_count` / `Weak::weak_count` is 0 once the target
/// is dropped whatever the number of `Weak`s; then only identity and emptiness are compared.
fn cnt_of<K: Kind>(v: &K) -> usize {
    let c = v.counts();
    if K::COUNTED == 0 {
        c.0
    } else {
        c.1
    }
}

/// All the laws for one value `v` of kind `K`. `counted` = whether the reference counts of the
/// target are observable (false once the target of a weak pointer is gone, or for empty values).
pub fn laws<K: Kind>(kname: &str, pointee: &str, state: &str, v: K, counted: bool) -> u64 {
    let mut checks = 0u64;
    let empty = v.is_empty();
    let c0 = v.counts();
    // 1. as_ptr == what into_ptr gives; raw round trip preserves identity and counts
    let a = K::as_ptr(&v);
    let keep = v.clone();
    let c1 = keep.counts();
    let raw = K::into_ptr(v);
    checks += 1;
    if a != raw {
        fail(kname, pointee, state, "as_ptr-vs-into_ptr", format!("as_ptr gave {:p}, into_ptr gave {:p}", a, raw));
    }
    checks += 1;
    if empty != raw.is_null() {
        fail(kname, pointee, state, "null-mapping", format!("empty={} but raw pointer is {:p}", empty, raw));
    }
    let back = unsafe { K::from_ptr(raw) };
    checks += 1;
    if !back.same(&keep) || back.is_empty() != empty {
        fail(kname, pointee, state, "round-trip-identity", "from_ptr(into_ptr(v)) is not v".to_string());
    }
    checks += 1;
    if counted && back.counts() != c1 {
        fail(kname, pointee, state, "round-trip-counts", format!("counts {:?} before, {:?} after the raw round trip", c1, back.counts()));
    }
    // 2. inc adds exactly one, dec removes exactly one
    let before = cnt_of(&back);
    let p = K::inc(&back);
    checks += 1;
    if p != K::as_ptr(&back) {
        fail(kname, pointee, state, "inc-pointer", format!("inc returned {:p}, as_ptr is {:p}", p, K::as_ptr(&back)));
    }
    checks += 1;
    if counted && !empty && cnt_of(&back) != before + 1 {
        fail(kname, pointee, state, "inc-count", format!("count {} before inc, {} after", before, cnt_of(&back)));
    }
    unsafe { K::dec(p) };
    checks += 1;
    if counted && cnt_of(&back) != before {
        fail(kname, pointee, state, "dec-count", format!("count {} before inc+dec, {} after", before, cnt_of(&back)));
    }
    drop(back);
    checks += 1;
    if counted && keep.counts() != c0 {
        fail(kname, pointee, state, "counts-restored", format!("counts {:?} at start, {:?} after all trait calls", c0, keep.counts()));
    }
    // 3. container round trip: new / load / load_full / swap / compare_and_swap / into_inner
    // (every call is total: a budget on the crate's own step points catches a call that loops)
    crate::sched::op_begin(20_000);
    runner::SEQ_INCALL.store(true, std::sync::atomic::Ordering::Relaxed);
    let cont = ArcSwapAny::<K>::new(keep.clone());
    {
        let g = cont.load();
        checks += 1;
        if !g.same(&keep) {
            fail(kname, pointee, state, "container-load", "load() does not return the stored value".to_string());
        }
        let full = cont.load_full();
        checks += 1;
        if !full.same(&keep) {
            fail(kname, pointee, state, "container-load_full", "load_full() does not return the stored value".to_string());
        }
        checks += 1;
        if counted && !empty && cnt_of(&keep) < c0_counted::<K>(c0) + 2 {
            fail(kname, pointee, state, "container-counts", format!("count {} with a container and a full load alive (started at {})", cnt_of(&keep), c0_counted::<K>(c0)));
        }
    }
    let old = cont.swap(keep.clone());
    checks += 1;
    if !old.same(&keep) {
        fail(kname, pointee, state, "container-swap", "swap() did not return the stored value".to_string());
    }
    drop(old);
    let prev = cont.compare_and_swap(&keep, keep.clone());
    checks += 1;
    if !prev.same(&keep) {
        fail(kname, pointee, state, "container-cas", "compare_and_swap() did not return the stored value".to_string());
    }
    drop(prev);
    let out = cont.into_inner();
    checks += 1;
    if !out.same(&keep) || out.is_empty() != empty {
        fail(kname, pointee, state, "container-into_inner", "into_inner() is not the stored value".to_string());
    }
    drop(out);
    crate::sched::op_steps();
    runner::SEQ_INCALL.store(false, std::sync::atomic::Ordering::Relaxed);
    crate::sched::PROGRESS.fetch_add(1, std::sync::atomic::Ordering::Relaxed);
    checks += 1;
    if counted && keep.counts() != c0 {
        fail(kname, pointee, state, "container-counts-restored", format!("counts {:?} at start, {:?} after the container round trip", c0, keep.counts()));
    }
    checks
}

fn c0_counted<K: Kind>(c: (usize, usize)) -> usize {
    if K::COUNTED == 0 {
        c.0
    } else {
        c.1
    }
}

#[derive(Default, Clone, PartialEq, Debug)]
pub struct Zst;
#[derive(Clone, PartialEq, Debug)]
#[repr(align(64))]
pub struct Aligned(pub u8);

/// Run the grid for one pointee constructor. Returns (cells, checks).
pub fn grid_for<T: Clone + PartialEq + std::fmt::Debug + 'static>(pname: &str, mk: &dyn Fn() -> T) -> (u64, u64) {
    let mut cells = 0u64;
    let mut checks = 0u64;
    macro_rules! cell {
        ($k:expr, $s:expr, $v:expr, $c:expr) => {{
            cells += 1;
            checks += laws($k, pname, $s, $v, $c);
            runner::distinct_str(&format!("{}|{}|{}", $k, pname, $s));
        }};
    }
    // ---- strong kinds
    {
        let a = Arc::new(mk());
        cell!("Arc", "unique", a.clone(), true);
        let _s1 = a.clone();
        let _s2 = a.clone();
        cell!("Arc", "shared", a.clone(), true);
        let _w = Arc::downgrade(&a);
        cell!("Arc", "with-weak", a.clone(), true);
        cell!("Option<Arc>", "some-with-weak", Some(a.clone()), true);
        cell!("Option<Arc>", "none", None::<Arc<T>>, false);
        cell!("Option<Option<Arc>>", "some-some", Some(Some(a.clone())), true);
        cell!("Option<Option<Arc>>", "none", None::<Option<Arc<T>>>, false);
        cell!("Option<Option<Arc>>", "some-none", Some(None::<Arc<T>>), false);
    }
    {
        let a = Arc::new(mk());
        cell!("Option<Arc>", "some-unique", Some(a), true);
    }
    {
        let r = Rc::new(mk());
        cell!("Rc", "unique", r.clone(), true);
        let _s1 = r.clone();
        cell!("Rc", "shared", r.clone(), true);
        let _w = Rc::downgrade(&r);
        cell!("Rc", "with-weak", r.clone(), true);
        cell!("Option<Rc>", "some", Some(r.clone()), true);
        cell!("Option<Rc>", "none", None::<Rc<T>>, false);
    }
    // ---- weak kinds
    {
        let a = Arc::new(mk());
        let w = Arc::downgrade(&a);
        cell!("Weak", "target-alive", w.clone(), true);
        let _w2 = w.clone();
        cell!("Weak", "target-alive-shared", w.clone(), true);
        cell!("Option<Weak>", "some-alive", Some(w.clone()), true);
        cell!("Option<Weak>", "none", None::<Weak<T>>, false);
        cell!("Option<Weak>", "some-dangling", Some(Weak::<T>::new()), false);
        drop(a);
        cell!("Weak", "target-dropped", w.clone(), false);
        cell!("Weak", "dangling", Weak::<T>::new(), false);
        // a container of Weak does not keep its target alive
        let a2 = Arc::new(mk());
        let cont = ArcSwapAny::<Weak<T>>::new(Arc::downgrade(&a2));
        let g = cont.load();
        cells += 1;
        checks += 2;
        if g.upgrade().is_none() {
            fail("Weak", pname, "container", "weak-container-upgrade", "upgrade failed while the target is alive".to_string());
        }
        drop(g);
        drop(a2);
        if cont.load().upgrade().is_some() {
            fail("Weak", pname, "container", "weak-container-keeps-alive", "the container kept the target alive".to_string());
        }
        runner::distinct_str(&format!("Weak|{}|container", pname));
    }
    {
        let r = Rc::new(mk());
        let w = Rc::downgrade(&r);
        cell!("rc::Weak", "target-alive", w.clone(), true);
        drop(r);
        cell!("rc::Weak", "target-dropped", w.clone(), false);
        cell!("rc::Weak", "dangling", RcWeak::<T>::new(), false);
    }
    // ---- distinct objects have distinct addresses (also for zero-sized pointees)
    {
        let a = Arc::new(mk());
        let b = Arc::new(mk());
        let (pa, pb) = (<Arc<T> as RefCnt>::as_ptr(&a) as usize, <Arc<T> as RefCnt>::as_ptr(&b) as usize);
        cells += 1;
        checks += 2;
        if pa == pb {
            fail("Arc", pname, "two-objects", "distinct-addresses", format!("two live Arcs share the address {:#x}", pa));
        }
        if pa == 0b11 || pb == 0b11 || pa == 0 || pb == 0 {
            fail("Arc", pname, "two-objects", "reserved-address", format!("a live Arc has a reserved address ({:#x}, {:#x})", pa, pb));
        }
        runner::distinct_str(&format!("Arc|{}|two-objects", pname));
    }
    // ---- convenience constructors: each is specified as an equivalent of `new(..)`
    {
        #[allow(deprecated)]
        type Fb = arc_swap::strategy::test_strategies::FillFastSlots;
        let mut ck = |ok: bool, law: &str, detail: &str| {
            checks += 1;
            if !ok {
                fail("Arc", pname, "constructor", law, detail.to_string());
            }
        };
        let c = ArcSwap::<T>::from_pointee(mk());
        let g = c.load();
        ck(**g == mk(), "from_pointee-value", "ArcSwap::from_pointee does not hold the value it was given");
        ck(Arc::strong_count(&g) == 1, "from_pointee-count", "ArcSwap::from_pointee: strong count of the stored value is not 1");
        drop(g);
        let v = c.into_inner();
        ck(Arc::strong_count(&v) == 1 && *v == mk(), "from_pointee-into_inner", "into_inner after from_pointee");
        let c = ArcSwapOption::<T>::from_pointee(mk());
        let g = c.load();
        ck(g.as_ref().map(|a| **a == mk() && Arc::strong_count(a) == 1) == Some(true), "option-from_pointee", "ArcSwapOption::from_pointee(value) must hold Some(value) with count 1");
        drop(g);
        let c2 = ArcSwapOption::<T>::from_pointee(None);
        ck(c2.load().is_none(), "option-from_pointee-none", "ArcSwapOption::from_pointee(None) must be empty");
        let c3 = ArcSwapOption::<T>::from_pointee(Some(mk()));
        ck(c3.load().as_ref().map(|a| **a == mk()) == Some(true), "option-from_pointee-some", "ArcSwapOption::from_pointee(Some(value))");
        let e1 = ArcSwapOption::<T>::empty();
        let e2 = ArcSwapOption::<T>::const_empty();
        let e3 = ArcSwapOption::<T>::default();
        let e4 = ArcSwapAny::<Option<Arc<T>>, Fb>::empty();
        let e5 = ArcSwapAny::<Option<Arc<T>>, Fb>::default();
        ck(e1.load().is_none() && e2.load().is_none() && e3.load().is_none() && e4.load().is_none() && e5.load().is_none(), "empty", "empty() / const_empty() / default() must hold None");
        ck(e1.load_full().is_none() && e4.load_full().is_none(), "empty-load_full", "load_full of an empty container");
        // an empty container works like any other afterwards
        let a = Arc::new(mk());
        for (i, e) in [&e1, &e2, &e3].iter().enumerate() {
            let prev = e.swap(Some(a.clone()));
            ck(prev.is_none(), "empty-swap", "swap on an empty container must return None");
            ck(Arc::strong_count(&a) == 2 + i, "empty-swap-count", "count after storing into an empty container");
            let g = e.load();
            ck(g.as_ref().map(|x| Arc::ptr_eq(x, &a)) == Some(true), "empty-then-load", "load after storing into an empty container");
        }
        let prev = e4.compare_and_swap(&None::<Arc<T>>, Some(a.clone()));
        ck(prev.is_none() && e4.load().as_ref().map(|x| Arc::ptr_eq(x, &a)) == Some(true), "empty-cas", "compare_and_swap(None, v) on an empty container must store v");
        let prev = e5.compare_and_swap(std::ptr::null::<T>(), Some(a.clone()));
        ck(prev.is_none() && e5.load().as_ref().map(|x| Arc::ptr_eq(x, &a)) == Some(true), "empty-cas-null", "compare_and_swap(null, v) on an empty container must store v");
        drop((e1, e2, e3, e4, e5));
        ck(Arc::strong_count(&a) == 1, "empty-dropped-count", "count after dropping the containers");
        // guards made from values
        let g: Guard<Option<Arc<T>>> = Guard::default();
        ck(g.is_none(), "guard-default", "Guard::default() of an Option kind must be None");
        let g: Guard<Arc<T>> = Guard::from(a.clone());
        ck(Arc::ptr_eq(&g, &a) && Arc::strong_count(&a) == 2, "guard-from", "Guard::from(value)");
        let back = Guard::into_inner(g);
        ck(Arc::ptr_eq(&back, &a) && Arc::strong_count(&a) == 2, "guard-from-into_inner", "Guard::into_inner(Guard::from(value))");
        drop(back);
        // formatting goes through a load and leaves the counts alone
        let c = ArcSwap::from(a.clone());
        let txt = format!("{:?}", c);
        ck(txt == format!("ArcSwapAny({:?})", mk()), "debug", "Debug of a container");
        ck(format!("{:?}", c.load()) == format!("{:?}", mk()), "debug-guard", "Debug of a guard");
        ck(Arc::strong_count(&a) == 2, "debug-count", "count after formatting");
        drop(c);
        ck(Arc::strong_count(&a) == 1, "final-count", "count at the end of the constructor block");
        cells += 1;
        runner::distinct_str(&format!("Arc|{}|constructors", pname));
    }
    (cells, checks)
}

pub fn run_grid() -> (u64, u64) {
    runner::sample(
        json!({"cell": "kind=Weak pointee=String state=target-dropped", "laws": ["as_ptr == into_ptr", "null iff empty", "from_ptr(into_ptr(v)) is v", "counts unchanged by the round trip", "inc returns as_ptr", "inc adds one", "dec removes one", "counts restored", "container load / load_full / swap / compare_and_swap / into_inner return the stored value", "counts restored after the container round trip"]}),
        1,
    );
    let mut cells = 0;
    let mut checks = 0;
    let mut add = |r: (u64, u64)| {
        cells += r.0;
        checks += r.1;
    };
    add(grid_for::<Zst>("ZST", &|| Zst));
    add(grid_for::<u8>("u8", &|| 7u8));
    add(grid_for::<u64>("u64", &|| 0xDEAD_BEEF_u64));
    add(grid_for::<Aligned>("align64", &|| Aligned(3)));
    add(grid_for::<String>("String", &|| "some heap data".to_string()));
    add(grid_for::<[u64; 33]>("[u64;33]", &|| [5u64; 33]));
    {
        // Display of a container and of a guard is the Display of the current value
        let c = ArcSwap::from_pointee("first".to_string());
        let mut ok = format!("{}", c) == "first" && format!("{}", c.load()) == "first";
        c.store(Arc::new("second".to_string()));
        ok &= format!("{}", c) == "second";
        let o = ArcSwapOption::<String>::empty();
        ok &= format!("{:?}", o) == "ArcSwapAny(None)";
        if !ok {
            fail("Arc", "String", "constructor", "display", "Display / Debug of a container does not show the current value".to_string());
        }
        add((1, 4));
    }
    (cells, checks)
}
