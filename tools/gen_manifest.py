#!/usr/bin/env python3
"""Regenerates /verif/MANIFEST.json from tools/plans.py (claimed checks) and the texts below."""
import json, os, sys
ROOT = os.path.dirname(os.path.dirname(os.path.abspath(__file__)))
sys.path.insert(0, os.path.join(ROOT, "tools"))
import plans

HOOK_COMMITS = ["d9913d3", "8e2e077", "cb1976e"]

TEXT = {
    "C01": ("exploration", "5 C01",
            "Runtime monitoring: a harness-defined RefCnt pointer with a ledger (no event on a destroyed object, no 0->1 count, no destruction while the harness holds a handle) observes the real crate under a seeded token-passing scheduler (random / PCT / adversary strategies at every shared-memory step point, quarantine and address-reuse allocation) and under real parallelism with delay fuzzing; AddressSanitizer on Tp(real) and std Arc. Held on the executions reported in the evidence, nothing more.",
            "ledger monitor on an instrumented RefCnt pointer under a seeded token scheduler / delay fuzzing + AddressSanitizer, ThreadSanitizer, Miri, valgrind memcheck"),
    "C02": ("exploration", "5 C02",
            "Conservation law strong + occupied debt slots == containers + owned handles + live guards checked for every object at quiescent points (all threads parked by the harness, guards still held), all slots empty / control idle / no writers after the join, no leak, no double destruction; LeakSanitizer as an independent coarser witness.",
            "quiescent-point invariant monitor (conservation law over ledger + node-list hook) + LeakSanitizer, Miri, valgrind memcheck"),
    "C03": ("exploration", "5 C03",
            "Boundary-recorded operation histories (unique value ids, SeqCst stamps) of every execution are checked for linearizability against a sequential pointer-cell model, per container, by an exact frontier search (budget exhaustion = inconclusive). Store-buffering litmus rounds under Miri's weak-memory emulation (flag and two-container shapes, every write operation x read flavour x strategy) decide 'a load started after a completed store sees it' where the stamps themselves would supply the ordering.",
            "offline linearizability checking of recorded histories (token-scheduled, free-running, under Miri) + store-buffering litmus monitor under Miri"),
    "C04": ("exploration", "5 C04",
            "Chain oracle over write histories (each value handed back at most once, unique successor) plus the linearizability check with final value and the ledger's conservation / leak check for overwritten values.",
            "history monitor: chain + conservation oracle (+ Miri litmus / race detection for the publishing exchange)"),
    "C05": ("exploration", "5 C05",
            "compare_and_swap recorded with expected address / returned address / new id; linearizability under the rule 'replaces iff stored address == expected, returns the stored value either way', small value pools, stale raw addresses and address reuse (A-B-A), all `current` forms the strategy supports; counts through the ledger.",
            "offline linearizability checking with compare-and-swap semantics + ledger + store-buffering litmus monitor under Miri"),
    "C06": ("exploration", "5 C06",
            "rcu recorded as its initial load plus one compare-and-swap per closure invocation; linearizability of the whole history, rcu return value == last closure input, products of discarded attempts never observed by any load and destroyed by quiescence; re-entrant closures.",
            "history monitor with rcu sub-events + ledger + store-buffering litmus monitor under Miri"),
    "C10": ("exploration", "5 C10",
            "Identity seen through every guard at creation, at random later moments, after moving to another thread and at drop; guards outlive containers (last holder drops / into_inner) and race with writers; ledger rules and conservation law; ASan for real frees.",
            "guard identity monitor + ledger + AddressSanitizer + Miri (hb-silent node hand-over scenario)"),
    "C12": ("exploration", "5 C12",
            "Per-container linearizability with provenance (a value returned by container A must have been stored in A), several containers sharing threads and values stored in several containers, writers of one container walking nodes of readers of another (help.other_storage path required).",
            "per-container history checking with provenance + kind-tag monitor on two pointee kinds"),
}

TEXT.update({
    "C07": ("exploration", "5 C07",
            "ThreadSanitizer (happens-before from the requested orderings, real parallelism with delay fuzzing) and Miri (C11 store buffers, data-race detection, address reuse, provenance; one interpreter process per seed) run an hb-silent workload: workers share nothing but the containers; the pointee's plain payload is written before publication, read through every handle on every path a pointer can travel, and overwritten by the destructor, so a missing edge is a reported data race.",
            "ThreadSanitizer + Miri data-race detection on an hb-silent workload"),
    "C11": ("exploration", "5 C11",
            "Thread-lifecycle workload under the token scheduler (thread start / exit / thread-local destructors scheduled too) and free-running under ASan: node count <= 2 x peak threads alive, no two threads own a node at overlapping times (ownership intervals recorded inside real ownership), a thread's node is stable, operations after the crate's TLS is gone work; ledger, conservation law and histories during churn.",
            "structural invariant monitors over the node-list hooks during scheduled thread churn"),
    "C14": ("exploration", "5 C14",
            "Seeded random single-threaded programs run under the default, the fallback-only and the lock-based strategy and compared with an executable plain-variable model after every step: identities exactly, counts through the conservation law (every step is a quiescent point), tight reclamation, clean tear-down; also under ASan with std Arc and under Miri.",
            "reference-model monitor over random API programs, three strategies"),
    "C15": ("exploration", "5 C15",
            "The finite grid of pointer kinds x pointee layouts x count states is enumerated completely; each cell checks the raw round trip, as_ptr/into_ptr agreement, inc/dec deltas, the null mapping and a container round trip; run natively, under AddressSanitizer and under Miri (which decide 'never dereferenced').",
            "exhaustive law grid under Miri / ASan"),
})

TEXT.update({
    "C08": ("exploration", "5 C08",
            "Bounded-progress restatement monitored at run time: every measured load of a victim thread must finish within 64 of its own step points under four forced schedulers (solo, random, an adversary completing whole writes after every single victim step, everybody else frozen for good mid-load), with 0..20 guards held; the bound is enforced inside the step handler, non-stepping hangs by the watchdog rule.",
            "step-count monitor under adversarial / freezing token schedulers"),
    "C09": ("exploration", "5 C09",
            "Freeze-and-solo probes from sampled intermediate states: all threads but the prober are parked at their current step point (table of freeze sites in the evidence, the windows named by the property are required to occur), the prober then completes every kind of write / guard operation alone within 50 + 70 x #nodes own steps; afterwards the execution resumes and all core oracles run.",
            "solo-completion probes from frozen states under the token scheduler + step-count monitor"),
})

TEXT.update({
    "C13": ("fault_enumeration", "5 C13",
            "The wrap-around of the slow-path transaction counter is forced at each of 17 positions (preset through a hook) in three situations and on both ways onto the slow path; every API call of every workload runs under a panic hook that attributes panics located in the crate to C13; hangs are decided by the watchdog; after the wrap 20-60 more operations per thread run and all core oracles (ledger, conservation law, histories, node invariants) must hold. TOKEN-scheduled, free-running, under ASan and (small presets) under Miri. 16 scripted full-cycle scenarios (a writer keeps a replacement for generation X while the reader's counter wraps and, preset forward, reaches X again) check that the old replacement is not accepted.",
            "fault enumeration of counter presets + panic/hang monitor + core oracles"),
})

TEXT.update({
    "C16": ("exploration", "5 C16",
            "Cache::load (plain, mapped and cloned caches, one per thread and container) is recorded as a read in the boundary history and must linearize with the stores of other threads (never a value not stored, never older than a store whose completion precedes the call, monotone per cache); the value retained inside each cache is accounted by address in the ledger, so the conservation law at quiescent points decides 'exactly one retained reference, the previous one released'. A second workload over Arc values reads caches in every way the API offers (inherent load, the Access trait on a plain Cache, generic Access bounds, MapCache, clones, caches over & and Arc) against a plain-variable model with strong-count checks, and concurrently against a writer that hands each completed store over through an atomic.",
            "history linearizability with cache reads + ledger accounting of retained references + reference-model monitor over all cache access paths"),
})

TEXT.update({
    "C17": ("exploration", "5 C17",
            "Every projection guard obtained through 12 chain shapes of the Access machinery is watched for its whole life: the root id it projects must not change across interleaved stores, moves and until drop; the root's drop flag must stay clear; loads are linearized against the stores; all chains must agree on a quiet container; Constant yields its own value. TOKEN-scheduled and free-running, under AddressSanitizer and Miri; store-buffering litmus rounds under Miri include loads through a Map.",
            "snapshot-identity monitor on projection guards + history linearizability + ASan/Miri + store-buffering litmus monitor under Miri"),
})

TEXT.update({
    "C20": ("exploration", "5 C20",
            "Seeded random serializable values are pushed through the container and compared with the pointee's own serialization (string and token tree), for ArcSwap and ArcSwapOption, under all three default-constructible strategies; deserialization is checked for value and reference count; a pointee whose Serialize impl stores into the container half-way checks that the serialized value is a protected snapshot; deserialize_in_place is run with guards outstanding; serialization also races with stores from another thread under all three strategies (whole, live, monotone outputs); natively, under ASan, TSan and Miri.",
            "differential monitor container-vs-pointee serialization over random values + concurrent serialize-vs-store monitor + ASan/TSan/Miri"),
})

TEXT.update({
    "C18": ("fault_enumeration", "5 C18",
            "Every piece of user code the library calls is owned by the harness and can be made to panic at its n-th invocation; positions are enumerated against a counting run of the same seeded execution (sequential and TOKEN-scheduled, guards held, rcu retries forced, destructors running inside a writer's walk by a directed schedule). After catch_unwind the execution goes on; history with the panicked operation open, conservation law, slots, control words and leaks are checked. Run natively and under ASan.",
            "fault enumeration over user-code invocations + post-unwind invariant monitors"),
})

# checks over the core machinery all carry the cross-cutting jobs (tools/plans.py: cross_jobs)
CROSS = {pid: " + systematic two-thread schedule enumeration (wl_pair) + scripted wrap / lifecycle scenarios under the token scheduler"
         for pid in ("C01", "C02", "C03", "C04", "C05", "C06", "C10", "C11", "C12", "C16", "C17")}

NOTE = {
    "C01": "Trusted: the harness pointer type and scheduler; TOKEN mode explores sequentially consistent interleavings only; SC-only ordering weakenings are out of reach (DESIGN.md).",
}


def main():
    props = [json.loads(l) for l in open(os.path.join(ROOT, "properties.jsonl"))]
    checks = []
    na = []
    na_reason = {
        "C19": "Auto-trait markers are decided by the type checker, not by any execution; deciding them needs compile accept/reject probes (static technique), outside runtime monitoring (DESIGN.md section 6).",
    }
    for p in props:
        pid = p["id"]
        if pid in plans.PLANS and pid in TEXT:
            cat, ref, text, tech = TEXT[pid]
            checks.append({
                "property_id": pid,
                "quick_cmd": "./check %s --tier quick" % pid,
                "thorough_cmd": "./check %s --tier thorough" % pid,
                "evidence_file": "evidence/%s.json" % pid,
                "replay_cmd_template": "./check %s --replay {path}" % pid,
                "engine": "asv",
                "level_claimed": {"category": plans.PLANS[pid]["level"], "text": text, "design_ref": "DESIGN.md section " + ref},
                "level_note": NOTE.get(pid, "Trusted: harness monitors (ledger, history recorder, checker), the step hooks being purely additive, and the tools named in technique. A pass means: held on the executions counted in the evidence file."),
                "technique": tech + CROSS.get(pid, ""),
            })
        else:
            na.append({"property_id": pid, "reason": na_reason.get(pid, "check not built yet (build in progress; see DESIGN.md section 5)")})
    m = {
        "version": 1,
        "setup_cmd": "./setup.sh",
        "hooks": {
            "guard": "cargo feature verif-hooks (off by default)",
            "enable": "the harness crate /verif/harness depends on arc-swap (path /repo) with features [verif-hooks, weak, internal-test-strategies, serde]",
            "baseline_off_cmd": "cd /repo && cargo nextest run --workspace --no-fail-fast --offline || cargo test --workspace --no-fail-fast --offline",
            "source_commits": HOOK_COMMITS,
            "add_only": True,
        },
        "engines": [
            {"name": "asv", "path": "harness/", "serves_properties": [c["property_id"] for c in checks],
             "kind_free_text": "Rust harness: tracked RefCnt pointer with ledger, token-passing schedule fuzzer / delay fuzzer on step hooks, history recorder + linearizability checker, workloads per property; run natively, under ASan, TSan, Miri and valgrind by the python driver ./check"},
        ],
        "checks": checks,
        "not_applicable": na,
        "notes": "Family: runtime monitoring and sanitizers. Known findings (genuine defects not repaired) are in known_findings.json; seeded breaking changes in seeded/.",
    }
    json.dump(m, open(os.path.join(ROOT, "MANIFEST.json"), "w"), indent=1)
    print("claimed:", [c["property_id"] for c in checks])
    print("not_applicable:", [n["property_id"] for n in na])


if __name__ == "__main__":
    main()
