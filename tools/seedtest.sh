#!/bin/bash
# usage: seedtest.sh <patch.diff> <slot> <check-id> [tier]
# Evaluates a check against a breaking change on a SCRATCH copy (worktree of /repo + copy of the
# harness), so that /repo itself stays untouched. For experiments only; confirmations recorded in
# seeded/*/meta.json are made with tools/withpatch.sh on /repo itself.
set -u
PATCH="$1"; SLOT="$2"; CHECK="$3"; TIER="${4:-quick}"
D=/tmp/st/$SLOT
mkdir -p $D
if [ ! -d $D/repo ]; then git -C /repo worktree add --detach $D/repo HEAD -q || exit 97; fi
git -C $D/repo checkout -q --detach $(git -C /repo rev-parse HEAD) 2>/dev/null
git -C $D/repo checkout -- . ; git -C $D/repo clean -fdq -e target
if [ "$PATCH" != "none" ]; then git -C $D/repo apply "$PATCH" || { echo "PATCH-FAILED $PATCH"; exit 98; }; fi
mkdir -p $D/harness
# the COMMITTED harness (immune to work in progress in /verif)
rm -rf $D/harness.new && mkdir -p $D/harness.new && git -C /verif archive HEAD harness | tar -x -C $D/harness.new && rsync -a --delete --exclude target $D/harness.new/harness/ $D/harness/ && rm -rf $D/harness.new
sed -i "s#path = \"/repo\"#path = \"$D/repo\"#" $D/harness/Cargo.toml
cd /verif
ASV_HARNESS_DIR=$D/harness ASV_OUT_DIR=$D/out ASV_TARGET_PREFIX=$D/target- timeout 3600 ./check $CHECK --tier $TIER > $D/last.log 2>&1
rc=$?
grep -a -E "^(VIOLATION|OK|FAIL|HARNESS|KNOWN|BUILD)" $D/last.log | cut -c1-250 | head -8
grep -a -E "^  C" $D/last.log | cut -c1-300 | head -3
echo "seedtest patch=$PATCH check=$CHECK tier=$TIER rc=$rc"
git -C $D/repo checkout -- .
exit $rc
