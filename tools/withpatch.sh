#!/bin/bash
# usage: withpatch.sh <patch.diff> <command...>   -- applies the patch to /repo, runs, always reverts
set -u
P="$1"; shift
git -C /repo diff --quiet || { echo "/repo not clean"; exit 99; }
git -C /repo apply "$P" || { echo "patch does not apply"; exit 98; }
"$@"; rc=$?
git -C /repo checkout -- . 
exit $rc
