#!/bin/bash
# usage: confirm_seed.sh <patch.diff> <demo.rs> <slot> [miri-flags]
# Confirms a breaking change produced by a sub-agent on a scratch worktree of /repo HEAD:
#   demo without the change passes; the existing suite passes twice with the change (demo file
#   absent); demo with the change fails. With a 4th argument the demo is run under Miri with
#   those MIRIFLAGS instead of natively.
set -u
PATCH=$(readlink -f "$1"); DEMO=$(readlink -f "$2"); SLOT="$3"; MIRI="${4:-}"
D=/tmp/st/cf$SLOT
FEAT="verif-hooks,internal-test-strategies,weak,serde"
export CARGO_NET_OFFLINE=true
if [ ! -d $D/repo ]; then mkdir -p $D; git -C /repo worktree add --detach $D/repo HEAD -q || exit 97; fi
cd $D/repo || exit 97
git checkout -q --detach $(git -C /repo rev-parse HEAD) 2>/dev/null
git checkout -- . ; git clean -fdq -e target
name=$(basename "$DEMO" .rs)
run_demo() {
  cp "$DEMO" tests/$name.rs
  if [ -n "$MIRI" ]; then
    MIRIFLAGS="$MIRI" timeout 1800 cargo +nightly miri test --offline --features $FEAT --test $name > $D/demo.log 2>&1
  else
    timeout 900 cargo test --offline --features $FEAT --test $name > $D/demo.log 2>&1
  fi
  local rc=$?
  rm -f tests/$name.rs
  return $rc
}
run_demo; without=$?
git apply "$PATCH" || { echo "PATCH-FAILED"; exit 98; }
s1=x; s2=x
timeout 1800 cargo test --offline --features internal-test-strategies,weak,serde > $D/suite1.log 2>&1; s1=$?
timeout 1800 cargo test --offline --features internal-test-strategies,weak,serde > $D/suite2.log 2>&1; s2=$?
timeout 1800 cargo nextest run --offline --no-fail-fast > $D/suite3.log 2>&1; s3=$?
run_demo; with=$?
cp $D/demo.log $D/demo_with.log
git checkout -- . ; git clean -fdq -e target
verdict=REJECTED
if [ $without = 0 ] && [ $s1 = 0 ] && [ $s2 = 0 ] && [ $s3 = 0 ] && [ $with != 0 ]; then verdict=CONFIRMED; fi
echo "$name $verdict demo_without=$without suite=$s1,$s2,nextest=$s3 demo_with=$with miri='$MIRI'"
