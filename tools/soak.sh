#!/bin/bash
# usage: soak.sh <tier> <seeds...>   runs every registered check at each seed, prints a summary line per run
TIER=$1; shift
cd "$(dirname "$0")/.."
for s in "$@"; do
  for p in $(python3 -c "import json;print(' '.join(c['property_id'] for c in json.load(open('MANIFEST.json'))['checks']))"); do
    t0=$(date +%s)
    VERIF_SEED=$s ./check $p --tier $TIER > /tmp/soak_$$.log 2>&1; rc=$?
    echo "seed=$s $p rc=$rc $(( $(date +%s) - t0 ))s $(grep -a -E '^(OK|FAIL) ' /tmp/soak_$$.log | cut -c1-160)"
    if [ $rc -ne 0 ]; then grep -a -E '^(VIOLATION|HARNESS|INCONCLUSIVE|  C)' /tmp/soak_$$.log | cut -c1-400 | head -8; fi
  done
done
echo SOAK-DONE
