"""Per-property check plans: which jobs (harness workload x build flavour x shards) make up the quick
and thorough tiers, how the evidence is summarised, what coverage is required."""

CORE_ASSUMPTIONS = [
    "Executions are produced by the real crate built from /repo's working tree with the cargo feature verif-hooks; step points are additive and keep the real core::sync::atomic operations.",
    "TOKEN mode serialises threads at step points: it explores interleavings of the crate's shared-memory accesses under sequential consistency only; weak-memory outcomes are covered only as far as Miri / TSan jobs produce them.",
    "SeqCst-only weakenings whose effect needs store buffering through a read-modify-write (e.g. fast slot published with store(Release)) cannot be produced by x86, TSan or Miri and are out of reach (DESIGN.md section 5, C01 limits).",
    "History windows are recorded outside the calls (supersets of the real ones): the checker can miss a violation, never invent one.",
]


def T(tier, quick, thorough):
    return quick if tier == "quick" else thorough


def core_token(name, profile, execs, alloc="quarantine", shards=4, extra=None, strat="both", threads=4):
    args = ["core", "profile=" + profile, "mode=token", "execs=%d" % execs, "alloc=" + alloc, "strat=" + strat]
    if extra:
        args += extra
    return {"name": name, "flavour": "native", "args": args, "shards": shards, "threads": threads, "timeout": 1500}


def core_free(name, profile, secs, flavour="native", alloc="quarantine", shards=2, val="tp", extra=None, threads=8):
    args = ["core", "profile=" + profile, "mode=free", "secs=%d" % secs, "alloc=" + alloc, "val=" + val,
            "threads=%d" % threads, "ops_lo=200", "ops_hi=1200"]
    if extra:
        args += extra
    return {"name": name, "flavour": flavour, "args": args, "shards": shards, "threads": threads, "timeout": secs * 6 + 300}


def core_evidence(merged, results):
    hashes = set(merged.get("hashes", []))
    c = merged["counters"]
    ev = {}
    if hashes:
        ev["distinct_nontrivial"] = len(hashes)
    ev["loads_by_path"] = {k: v for k, v in c.items() if k.startswith("load.")}
    ev["writer_paths"] = {k: v for k, v in c.items() if k.startswith(("write.", "cas.", "rcu.", "node."))}
    ev["histories_checked"] = c.get("histories.linearizable", 0)
    ev["quiescent_objects_checked"] = c.get("q1.objects_checked", 0)
    return ev


def core_required(paths):
    def req(merged):
        c = merged["counters"]
        return ["path never executed: " + p for p in paths if c.get(p, 0) == 0]
    return req


CORE_RULE = ("One evaluation = one seeded execution of the core workload (2-4 threads in TOKEN mode, 3-8 in FREE mode; 6-16 resp. 200-1200 "
             "operations per thread on 1-3 containers; both the default and the fallback-only strategy). It is non-trivial if at least one "
             "load overlapped a write of another thread on the same container. Distinct = distinct hash of the (thread, step point) "
             "schedule trace in TOKEN mode, of the recorded history in FREE mode; distinct_nontrivial is the size of the union of these "
             "hashes over all shards.")

WINDOW_PATHS = ["load.fast_confirmed", "load.fast_changed_debt_returned", "load.fast_changed_prepaid", "load.fallback_confirmed",
                "load.fallback_helped", "write.helped_reader", "write.help_lost_race"]


def plan_core(pid, profile, level_text, extra_jobs=None, required=WINDOW_PATHS, asan=True):
    def jobs(tier, seed):
        js = [
            core_token(pid + ".token.quarantine", profile, T(tier, 2500, 120000)),
            core_token(pid + ".token.reuse", profile, T(tier, 1500, 60000), alloc="reuse"),
            core_free(pid + ".free.native", profile, T(tier, 6, 120), alloc="reuse"),
        ]
        if asan:
            js.append(core_free(pid + ".free.asan.tp", profile, T(tier, 6, 90), flavour="asan", alloc="real"))
            js.append(core_free(pid + ".free.asan.arc", profile, T(tier, 6, 90), flavour="asan", alloc="real", val="arc"))
        if extra_jobs:
            js += extra_jobs(tier, seed)
        return js
    return {
        "level": "exploration",
        "jobs": jobs,
        "rule": CORE_RULE,
        "evidence": core_evidence,
        "required": core_required(required),
        "assumptions": CORE_ASSUMPTIONS,
        "min_evaluations": {"quick": 1000, "thorough": 50000},
        "text": level_text,
    }


PLANS = {}
PLANS["C01"] = plan_core("C01", "c01", "ledger + sanitizers over scheduled executions")
PLANS["C02"] = plan_core("C02", "c02", "conservation law at quiescent points")
PLANS["C03"] = plan_core("C03", "c03", "history linearizability", asan=False)
PLANS["C04"] = plan_core("C04", "c04", "chain / conservation of writes", asan=False, required=["load.fast_confirmed", "load.fallback_confirmed", "write.helped_reader"])
PLANS["C05"] = plan_core("C05", "c05", "compare-and-swap histories", asan=False, required=["cas.internal_retry", "load.fallback_confirmed"])
PLANS["C06"] = plan_core("C06", "c06", "rcu histories", asan=False, required=["rcu.retried", "load.fallback_confirmed"])
PLANS["C10"] = plan_core("C10", "c10", "guard identity / ownership ledger")
PLANS["C12"] = plan_core("C12", "c12", "per-container histories", asan=False, required=WINDOW_PATHS + ["write.help_other_storage"])
