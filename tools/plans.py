"""Per-property check plans: which jobs (harness workload x build flavour x shards) make up the quick
and thorough tiers, how the evidence is summarised, what coverage is required."""

CORE_ASSUMPTIONS = [
    "Executions are produced by the real crate built from /repo's working tree with the cargo feature verif-hooks; step points are additive and keep the real core::sync::atomic operations.",
    "TOKEN mode serialises threads at step points: it explores interleavings of the crate's shared-memory accesses under sequential consistency only; weak-memory outcomes are covered only as far as Miri / TSan jobs produce them.",
    "SeqCst-only weakenings whose effect needs store buffering through a read-modify-write (e.g. fast slot published with store(Release)) cannot be produced by x86, TSan or Miri and are out of reach (DESIGN.md section 5, C01 limits).",
    "History windows are recorded outside the calls (supersets of the real ones): the checker can miss a violation, never invent one.",
]


def T(tier, quick, thorough):
    return quick if tier == "quick" else thorough


def core_token(name, profile, execs, alloc="quarantine", shards=4, extra=None, strat="both", threads=4):
    args = ["core", "profile=" + profile, "mode=token", "execs=%d" % execs, "alloc=" + alloc, "strat=" + strat]
    if extra:
        args += extra
    return {"name": name, "flavour": "native", "args": args, "shards": shards, "threads": threads, "timeout": 1500}


def core_free(name, profile, secs, flavour="native", alloc="quarantine", shards=2, val="tp", extra=None, threads=8):
    args = ["core", "profile=" + profile, "mode=free", "secs=%d" % secs, "alloc=" + alloc, "val=" + val,
            "threads=%d" % threads, "ops_lo=200", "ops_hi=1200"]
    if extra:
        args += extra
    return {"name": name, "flavour": flavour, "args": args, "shards": shards, "threads": threads, "timeout": secs * 6 + 300}


def core_evidence(merged, results):
    # union of the per-shard hash sets; a shard with too many hashes to list contributes its own count
    # (shards use disjoint execution numbers and seeds)
    hashes = set()
    extra = 0
    for r in results:
        rep = r.get("report")
        if not rep:
            continue
        if rep.get("hashes"):
            hashes.update(rep["hashes"])
        else:
            extra += rep.get("counters", {}).get("distinct_nontrivial", 0)
    c = merged["counters"]
    ev = {}
    if hashes or extra:
        ev["distinct_nontrivial"] = len(hashes) + extra
    ev["loads_by_path"] = {k: v for k, v in c.items() if k.startswith("load.")}
    ev["writer_paths"] = {k: v for k, v in c.items() if k.startswith(("write.", "cas.", "rcu.", "node."))}
    ev["histories_checked"] = c.get("histories.linearizable", 0)
    ev["quiescent_objects_checked"] = c.get("q1.objects_checked", 0)
    sb = {k[3:]: v for k, v in c.items() if k.startswith("sb.")}
    if sb:
        ev["store_buffering_litmus_rounds"] = sb
    return ev


def core_required(paths):
    def req(merged):
        c = merged["counters"]
        return ["path never executed: " + p for p in paths if c.get(p, 0) == 0]
    return req


CORE_RULE = ("One evaluation = one seeded execution of the core workload (2-4 threads in TOKEN mode, 3-8 in FREE mode; 6-16 resp. 200-1200 "
             "operations per thread on 1-3 containers; both the default and the fallback-only strategy). It is non-trivial if at least one "
             "load overlapped a write of another thread on the same container. Distinct = distinct hash of the (thread, step point) "
             "schedule trace in TOKEN mode, of the recorded history in FREE mode; distinct_nontrivial is the size of the union of these "
             "hashes over all shards. Where the plan has `miri.sb` jobs, one evaluation of those = one round of a store-buffering litmus test "
             "(T1: write(x); read flag or container y / T2: set flag or write(y); read x; the outcome in which neither sees the other is forbidden) "
             "under one Miri seed; rounds are counted per (shape, write operation, read flavour, strategy). Every core plan also has `x.` jobs: the wrap workload with its scripted full-cycle scenarios, the multi-container profile c12, and `x.pair`: a "
             "systematic exploration in which one read meets one write under every schedule of the shape (first thread i step points, second thread j step points, first to "
             "the end, second to the end), for all i and j, both orders, reader on the fast path / the helping path / the fallback-only strategy (about 84 000 schedules "
             "in the quick tier, each judged by all core oracles), a `life.token` job (the "
             "thread-lifecycle workload of C10/C11 with this check's operation profile) and a `weak.token` job (the core workload on containers of Weak).")

WINDOW_PATHS = ["load.fast_confirmed", "load.fast_changed_debt_returned", "load.fast_changed_prepaid", "load.fallback_confirmed",
                "load.fallback_helped", "write.helped_reader", "write.help_lost_race"]


def miri_core_job(pid, profile, tier, quick_seeds=6, thorough_seeds=160):
    return {"name": pid + ".miri.core", "flavour": "miri", "args": ["core", "profile=" + profile, "mode=free", "alloc=real", "execs=1", "threads=3", "ops_lo=5", "ops_hi=8"],
            "miri_seeds": T(tier, quick_seeds, thorough_seeds), "timeout": 1500}


def miri_token_job(pid, profile, tier, val="arc", quick_seeds=6, thorough_seeds=128):
    """The seeded token scheduler under Miri: deterministic interleavings at every step point, judged by Miri (provenance, dangling
    pointer arithmetic, uninitialised memory, aliasing); the token hand-over synchronises the threads, so no weak-memory effects here."""
    return {"name": "%s.miri.token.%s" % (pid, val), "flavour": "miri", "args": ["core", "profile=" + profile, "mode=token", "alloc=real", "val=" + val, "execs=%d" % T(tier, 2, 4),
            "threads=3", "ops_lo=4", "ops_hi=6"], "miri_seeds": T(tier, quick_seeds, thorough_seeds), "timeout": 1800}


def miri_sb_jobs(pid, tier, write="all", quick_seeds=32, thorough_seeds=512):
    """Store-buffering litmus under Miri's weak-memory emulation (wl_sb): shard i selects shape (flag / two containers), strategy, read flavour
    and value type, so 32 consecutive seeds cover every combination once."""
    n = T(tier, quick_seeds, thorough_seeds)
    return [{"name": "%s.miri.sb" % pid, "flavour": "miri", "args": ["sb", "write=" + write, "rounds=%d" % T(tier, 3, 4)], "miri_seeds": n,
             "miri_flags": ["-Zmiri-preemption-rate=0"], "timeout": 900},
            {"name": "%s.miri.sb.preempt" % pid, "flavour": "miri", "args": ["sb", "write=" + write, "rounds=%d" % T(tier, 3, 4)], "miri_seeds": n // 2, "timeout": 900}]


def cross_jobs(pid, tier, profile):
    """Reach that every check over the core machinery gets regardless of its own operation profile (third round of seeded changes: changes filed under
    one property needed several containers, the counter wrap or a thread exit to show): the multi-container profile and the wrap workload with its
    scripted full-cycle scenarios, both TOKEN-scheduled, and the systematic two-thread exploration (wl_pair)."""
    js = [{"name": pid + ".x.wrap.token", "flavour": "native", "args": ["wrap", "mode=token", "reps=1", "nshards=1"], "shards": 1, "threads": 3, "timeout": 1200},
          # systematic: every two-cut schedule (i, j) of one read against one write, both orders, fast path / helping path / fallback-only strategy
          {"name": pid + ".x.pair.token", "flavour": "native", "args": ["pair"] + (["nshards=4"] if tier == "quick" else ["full", "nshards=8"]), "shards": T(tier, 4, 8), "threads": 2, "timeout": 2400}]
    if profile != "c12":
        js.append(core_token(pid + ".x.c12.token", "c12", T(tier, 1200, 30000), shards=2))
    # the crate's RefCnt impls for Rc / Option<Rc> (fourth round: miscounts there are invisible to every multi-threaded workload): the sequential
    # reference-model programs over a forwarding wrapper, under all three strategies; natively (counts, identities) and under ASan (lifetime)
    js.append({"name": pid + ".x.rcseq", "flavour": "native", "args": ["seq", "val=rc", "progs=%d" % T(tier, 2000, 60000)], "shards": 1, "threads": 1, "timeout": 1200})
    js.append({"name": pid + ".x.rcseq.asan", "flavour": "asan", "args": ["seq", "val=rc", "progs=%d" % T(tier, 600, 20000)], "shards": 1, "threads": 1, "timeout": 1200})
    return js


def plan_core(pid, profile, level_text, extra_jobs=None, required=WINDOW_PATHS, asan=True, memcheck=False):
    def jobs(tier, seed):
        js = [
            core_token(pid + ".token.quarantine", profile, T(tier, 2500, 120000)),
            core_token(pid + ".token.reuse", profile, T(tier, 1500, 60000), alloc="reuse"),
            core_free(pid + ".free.native", profile, T(tier, 6, 120), alloc="reuse"),
        ]
        if asan:
            js.append(core_free(pid + ".free.asan.tp", profile, T(tier, 6, 90), flavour="asan", alloc="real"))
            js.append(core_free(pid + ".free.asan.arc", profile, T(tier, 6, 90), flavour="asan", alloc="real", val="arc"))
        if memcheck:
            js.append(core_free(pid + ".free.tsan.arc", profile, T(tier, 5, 60), flavour="tsan", alloc="real", val="arc"))
            js.append({"name": pid + ".free.memcheck.arc", "flavour": "memcheck", "args": ["core", "profile=" + profile, "mode=free", "secs=%d" % T(tier, 4, 40), "alloc=real",
                       "val=arc", "threads=4", "ops_lo=100", "ops_hi=300", "stall_s=120"], "shards": T(tier, 2, 8), "threads": 4, "timeout": 900})
            if tier != "quick":
                js.append({"name": pid + ".free.memcheck.tp", "flavour": "memcheck", "args": ["core", "profile=" + profile, "mode=free", "secs=40", "alloc=real",
                           "val=tp", "threads=4", "ops_lo=100", "ops_hi=300", "stall_s=120"], "shards": 8, "threads": 4, "timeout": 900})
        if memcheck and tier != "quick":
            # many threads on the fallback-only strategy: helpers' rejected replacements die inside writers' walks
            js.append(core_free(pid + ".free.fill14", profile, 60, alloc="quarantine", shards=1, threads=14, extra=["strat=fill"]))
        if extra_jobs:
            js += extra_jobs(tier, seed)
        # cross-cutting reach every core check gets (second round of seeded changes: a change is filed under the property it breaks, not under
        # the mechanism it touches): thread start / exit / node adoption under the token, and the Weak kind (empty value = dangling Weak <-> null)
        names = set(j["name"] for j in js)
        js += cross_jobs(pid, tier, profile)
        if pid + ".life.token" not in names:
            js.append(life_job(pid + ".life.token", "token", execs=T(tier, 1000, 30000), profile=profile))
        if pid + ".weak.token" not in names:
            js.append(core_token(pid + ".weak.token", profile, T(tier, 800, 30000), alloc="real", extra=["val=weak"]))
        return js
    return {
        "level": "exploration",
        "jobs": jobs,
        "rule": CORE_RULE,
        "evidence": core_evidence,
        "required": core_required(required),
        "assumptions": CORE_ASSUMPTIONS,
        "min_evaluations": {"quick": 1000, "thorough": 50000},
        "text": level_text,
    }


def race_job(name, flavour, shape, val, secs=0, shards=1, ops=None, miri_seeds=0, threads=8, scale=2):
    args = ["race", "shape=" + shape, "val=" + val]
    if secs:
        args.append("secs=%d" % secs)
    if ops:
        args.append("ops=%d" % ops)
    if flavour != "miri":
        args.append("scale=%d" % scale)
    j = {"name": name, "flavour": flavour, "args": args, "shards": shards, "threads": threads, "timeout": max(600, secs * 8 + 300)}
    if flavour == "miri":
        j["miri_seeds"] = miri_seeds
        j["timeout"] = 900
    return j


def miri_min_jobs(pid, tier, quick_seeds=36, thorough_seeds=720):
    """Minimal stale-read hunt without the step hook (see wl_race::minimal): 18 variants spread over the seeds."""
    n = T(tier, quick_seeds, thorough_seeds)
    js = []
    for val in ("arc", "tp"):
        js.append({"name": "%s.miri.min.%s" % (pid, val), "flavour": "miri", "args": ["race", "shape=min", "nohooks", "val=" + val], "miri_seeds": n,
                   "miri_flags": ["-Zmiri-preemption-rate=0"], "timeout": 900})
    js.append({"name": "%s.miri.min.arc.preempt" % pid, "flavour": "miri", "args": ["race", "shape=min", "nohooks", "val=arc"], "miri_seeds": n // 2, "timeout": 900})
    return js


def miri_race_jobs(pid, tier, shapes_vals, quick_seeds=12, thorough_seeds=384):
    n = T(tier, quick_seeds, thorough_seeds)
    return [race_job("%s.miri.%s.%s" % (pid, sh, val), "miri", sh, val, miri_seeds=n, ops=T(tier, 8, 10)) for (sh, val) in shapes_vals]


RACE_RULE = ("One evaluation = one execution of the hb-silent race workload (readers / writers on 1-2 containers; shapes a: default strategy with "
             "short-lived guards, b: fallback-only strategy with two writers (helping), c: more guards held than fast slots, d: compare-and-swap / rcu "
             "writers with guards and previous values handed to other threads, e: fallback-only with hand-over) under ThreadSanitizer (real "
             "parallelism, delay fuzzing at step points) or under one Miri seed (seeded scheduler + C11 store-buffer emulation + address reuse). "
             "Non-trivial = the execution completed at least one load concurrently with writes; distinct = distinct (tool, shape, value type, seed/shard) "
             "combination, counted.")


def race_evidence(merged, results):
    combos = set()
    for r in results:
        if r["report"] and r["report"].get("execs", 0) > 0:
            combos.add((r["job"], r["shard"]))
    n_miri = sum((r["report"] or {}).get("execs", 0) for r in results if r["flavour"] == "miri")
    c = merged["counters"]
    return {
        "distinct_nontrivial": len(combos) + n_miri,
        "miri_seeds_completed": n_miri,
        "loads": c.get("race.loads", 0),
        "payload_reads_through_handles": c.get("race.payload_reads_through_handles", 0),
        "loads_by_path": {k: v for k, v in c.items() if k.startswith("load.")},
        "tool_runs": sorted(set("%s:%s" % (r["flavour"], r["job"]) for r in results)),
    }


def plan_c07():
    def jobs(tier, seed):
        js = []
        for val in ("tp", "arc"):
            js.append(race_job("C07.tsan." + val, "tsan", "a,b,c,d,e", val, secs=T(tier, 5, 60), shards=T(tier, 2, 4)))
        if tier == "quick":
            js += miri_race_jobs("C07", tier, [("a", "tp"), ("b", "tp"), ("c", "tp"), ("a", "arc")], quick_seeds=8)
        else:
            js += miri_race_jobs("C07", tier, [("a", "tp"), ("b", "tp"), ("c", "tp"), ("d", "tp"), ("e", "tp"), ("a", "arc"), ("b", "arc"), ("d", "arc")])
        js += miri_min_jobs("C07", tier)
        return js
    return {
        "level": "exploration",
        "jobs": jobs,
        "rule": RACE_RULE,
        "evidence": race_evidence,
        "required": core_required(["load.fast_confirmed", "load.fallback_confirmed", "load.fallback_helped", "load.fast_changed_debt_returned"]),
        "assumptions": [
            "Miri's chance of producing a stale read falls with every additional atomic access in the program: the 'min' jobs therefore run without the step hook installed and with preemption rate 0 (measured on seeded change C01b: 4-7 % of seeds expose it there, 0 of 512 with the delay-fuzzing handler active).",
            "ThreadSanitizer decides happens-before from the orderings the code requests (so missing Acquire/Release edges are visible on x86) but does not model stale reads or fences; the harness uses no fences and shares nothing between workers while the workload runs.",
            "Miri emulates C11 store buffers, data races, address reuse and provenance on tiny workloads; its SC handling can deviate from C++20 in corner cases, so every Miri finding was re-derived by hand before being acted upon (DESIGN.md section 3).",
            "SeqCst-only weakenings that need store buffering through read-modify-write operations are out of reach of both tools.",
        ],
        "min_evaluations": {"quick": 20, "thorough": 500},
    }


PLANS = {}
PLANS["C01"] = plan_core("C01", "c01", "ledger + sanitizers over scheduled executions", memcheck=True,
                         extra_jobs=lambda tier, seed: miri_race_jobs("C01", tier, [("a", "tp"), ("b", "tp"), ("c", "arc"), ("e", "arc")], 6, 256) + miri_min_jobs("C01", tier)
                         + [{"name": "C01.miri.reent", "flavour": "miri", "args": ["reent"], "miri_seeds": T(tier, 2, 16), "timeout": 900},
                            miri_token_job("C01", "c05", tier, "arc"), miri_token_job("C01", "c01", tier, "tp", 4, 96)])
PLANS["C02"] = plan_core("C02", "c02", "conservation law at quiescent points", memcheck=True,
                         extra_jobs=lambda tier, seed: miri_race_jobs("C02", tier, [("a", "tp"), ("c", "tp"), ("b", "arc")], 8, 192) + [
                             # the weak kind (empty value = dangling Weak <-> null): counts and borrow slots of a container of Weak
                             core_token("C02.weak.token", "c02", T(tier, 800, 30000), alloc="real", extra=["val=weak"]),
                             # exact accounting when a pointee destructor / clone / closure panics (second-round seed C02y)
                             {"name": "C02.panic.seq", "flavour": "native", "args": ["panic", "mode=seq", "execs=%d" % T(tier, 800, 20000), "cap=8"], "shards": 2, "threads": 1, "timeout": 1200},
                             # destructor panics under concurrency (directed debt-walk and helped-reader scenarios included): counts lost by an unwinding
                             {"name": "C02.panic.token", "flavour": "native", "args": ["panic", "mode=token", "execs=%d" % T(tier, 800, 20000), "cap=8"], "shards": 4, "threads": 3, "timeout": 2400}])
PLANS["C03"] = plan_core("C03", "c03", "history linearizability", asan=False,
                         extra_jobs=lambda tier, seed: [life_job("C03.life.token", "token", execs=T(tier, 1000, 30000), profile="c03"), miri_core_job("C03", "c03", tier)] + miri_sb_jobs("C03", tier))
PLANS["C04"] = plan_core("C04", "c04", "chain / conservation of writes", asan=False, extra_jobs=lambda tier, seed: [miri_core_job("C04", "c04", tier, 4, 96)] + miri_sb_jobs("C04", tier, quick_seeds=16, thorough_seeds=256), required=["load.fast_confirmed", "load.fallback_confirmed", "write.helped_reader"])
PLANS["C05"] = plan_core("C05", "c05", "compare-and-swap histories", asan=False, extra_jobs=lambda tier, seed: [miri_core_job("C05", "c05", tier, 4, 96), core_token("C05.weak.token", "c05", T(tier, 800, 30000), alloc="real", extra=["val=weak"])] + miri_sb_jobs("C05", tier, "cas"), required=["cas.internal_retry", "load.fallback_confirmed"])
PLANS["C06"] = plan_core("C06", "c06", "rcu histories", asan=False, extra_jobs=lambda tier, seed: [miri_core_job("C06", "c06", tier, 4, 96)] + miri_sb_jobs("C06", tier, "rcu"), required=["rcu.retried", "load.fallback_confirmed"])
PLANS["C10"] = plan_core("C10", "c10", "guard identity / ownership ledger")
def dual_jobs(tier):
    return [{"name": "C12.dual.reuse", "flavour": "native", "args": ["dual", "alloc=reuse", "execs=%d" % T(tier, 1500, 60000)], "shards": 4, "threads": 3, "timeout": 2400},
            {"name": "C12.dual.quarantine", "flavour": "native", "args": ["dual", "alloc=quarantine", "execs=%d" % T(tier, 1500, 60000)], "shards": 4, "threads": 3, "timeout": 2400}]


PLANS["C12"] = plan_core("C12", "c12", "per-container histories", asan=False, extra_jobs=lambda tier, seed: [miri_core_job("C12", "c12", tier, 4, 96), life_job("C12.life.token", "token", execs=T(tier, 1000, 30000), profile="c12")] + dual_jobs(tier), required=WINDOW_PATHS + ["write.help_other_storage"])
PLANS["C07"] = plan_c07()


def life_job(name, mode, execs=0, secs=0, flavour="native", alloc="quarantine", shards=4, val="tp", profile="c10", threads=6):
    args = ["life", "profile=" + profile, "mode=" + mode, "alloc=" + alloc, "val=" + val]
    args.append("execs=%d" % execs if execs else "secs=%d" % secs)
    return {"name": name, "flavour": flavour, "args": args, "shards": shards, "threads": threads, "timeout": 1500 if execs else secs * 6 + 300}


LIFE_RULE = ("One evaluation = one seeded execution: either of the core workload (see C01) or of the thread-lifecycle workload: 2-5 rounds of 1-3 "
             "short-lived threads that load, keep, hand over guards and exit (some run container operations from a thread-local destructor after "
             "the crate's own thread-local is gone), one long-lived writer walking all nodes, one long-lived keeper holding handed-over guards "
             "across their creators' exits, a director spawning the rounds; TOKEN-scheduled (thread start, exit and thread-local destructors run "
             "under the token) or free-running. Non-trivial = a load overlapped a write of another thread; distinct = distinct schedule-trace / "
             "history hash; distinct_nontrivial = size of the union over shards. The `miri.reuse` jobs run, per Miri seed, 8 rounds of a node hand-over in which the "
             "exiting thread (leaving a guard's debt in its node) and the adopting thread are ordered by nothing but the crate itself; the value's count is checked "
             "around the drop of the guard that outlived its thread.")


def life_jobs(pid, tier):
    return [
        life_job(pid + ".life.token.quarantine", "token", execs=T(tier, 600, 40000)),
        life_job(pid + ".life.token.reuse", "token", execs=T(tier, 400, 20000), alloc="reuse"),
        life_job(pid + ".life.free.native", "free", secs=T(tier, 5, 90), alloc="reuse", shards=2),
        life_job(pid + ".life.free.asan", "free", secs=T(tier, 5, 60), flavour="asan", alloc="real", shards=2),
        life_job(pid + ".life.free.asan.arc", "free", secs=T(tier, 4, 60), flavour="asan", alloc="real", shards=2, val="arc"),
        {"name": pid + ".life.miri", "flavour": "miri", "args": ["life", "profile=c10", "mode=free", "alloc=real", "execs=1"], "miri_seeds": T(tier, 4, 96), "timeout": 1800},
        # node hand-over with nothing but the crate's own synchronisation between the exiting and the adopting thread (wl_race::node_reuse)
        {"name": pid + ".miri.reuse.arc", "flavour": "miri", "args": ["race", "shape=reuse", "nohooks", "val=arc", "rounds=8"], "miri_seeds": T(tier, 12, 192), "timeout": 900},
        {"name": pid + ".miri.reuse.tp", "flavour": "miri", "args": ["race", "shape=reuse", "nohooks", "val=tp", "rounds=8"], "miri_seeds": T(tier, 6, 96), "timeout": 900},
    ]


def plan_c10():
    base = plan_core("C10", "c10", "guard identity / ownership ledger")
    core_jobs = base["jobs"]
    base["jobs"] = lambda tier, seed: core_jobs(tier, seed)[:3] + life_jobs("C10", tier) + [
        core_token("C10.weak.token", "c10", T(tier, 800, 30000), alloc="real", extra=["val=weak"]),
        life_job("C10.life.token.weak", "token", execs=T(tier, 300, 15000), alloc="real", val="weak")] + cross_jobs("C10", tier, "c10")
    base["rule"] = LIFE_RULE
    base["required"] = core_required(WINDOW_PATHS + ["node.reused", "life.tls_gone_ops", "life.threads_created"])
    return base


def plan_c11():
    def ev(merged, results):
        e = core_evidence(merged, results)
        c = merged["counters"]
        e["threads_created"] = c.get("life.threads_created", 0)
        e["ownership_intervals_checked"] = c.get("life.ownership_intervals", 0)
        e["operations_after_tls_gone"] = c.get("life.tls_gone_ops", 0)
        e["max_nodes"] = merged["maxima"].get("nodes", 0)
        e["peak_threads_alive"] = merged["maxima"].get("peak_threads_alive", 0)
        return e
    return {
        "level": "exploration",
        "jobs": lambda tier, seed: life_jobs("C11", tier) + cross_jobs("C11", tier, "c10") + [life_job("C11.life.free.tsan", "free", secs=T(tier, 4, 60), flavour="tsan", alloc="real", shards=2)]
        + [dict(life_job("C11.life.token.wide", "token", execs=T(tier, 150, 10000)), args=["life", "profile=c10", "mode=token", "alloc=quarantine", "val=tp", "execs=%d" % T(tier, 150, 10000), "wide=1"], threads=8, shards=2)],
        "rule": LIFE_RULE,
        "evidence": ev,
        "required": core_required(["node.reused", "node.new", "life.tls_gone_ops", "life.threads_created", "life.ownership_intervals", "write.helped_reader"]),
        "assumptions": CORE_ASSUMPTIONS + ["Node-count bound checked: nodes <= 2 x peak number of workload threads alive at once in the process (a cooled-down node is refused only while a writer is inside it)."],
        "min_evaluations": {"quick": 500, "thorough": 20000},
    }


def plan_c14():
    def jobs(tier, seed):
        return [
            {"name": "C14.seq.tp", "flavour": "native", "args": ["seq", "val=tp", "progs=%d" % T(tier, 15000, 600000)], "shards": 8, "threads": 1, "timeout": 1800},
            {"name": "C14.seq.tp.reuse", "flavour": "native", "args": ["seq", "val=tp", "alloc=reuse", "progs=%d" % T(tier, 5000, 200000)], "shards": 4, "threads": 1, "timeout": 1800},
            {"name": "C14.seq.arc.asan", "flavour": "asan", "args": ["seq", "val=arc", "progs=%d" % T(tier, 3000, 100000)], "shards": 4, "threads": 1, "timeout": 1800},
            {"name": "C14.seq.miri", "flavour": "miri", "args": ["seq", "val=tp", "alloc=real", "progs=%d" % T(tier, 6, 12), "len=40"], "miri_seeds": T(tier, 8, 96), "timeout": 900},
            # the Rc kinds (the crate's RefCnt impls for Rc / Option<Rc>) through a forwarding wrapper
            {"name": "C14.seq.rc", "flavour": "native", "args": ["seq", "val=rc", "progs=%d" % T(tier, 5000, 200000)], "shards": 4, "threads": 1, "timeout": 1800},
            {"name": "C14.seq.rc.asan", "flavour": "asan", "args": ["seq", "val=rc", "progs=%d" % T(tier, 1500, 50000)], "shards": 2, "threads": 1, "timeout": 1800},
            {"name": "C14.seq.rc.miri", "flavour": "miri", "args": ["seq", "val=rc", "progs=%d" % T(tier, 4, 8), "len=40"], "miri_seeds": T(tier, 4, 48), "timeout": 900},
            # the lock-based reference strategy under real parallelism (FREE mode only: the TOKEN scheduler cannot run it): same ledger, conservation
            # and history oracles as the lock-free strategies; ASan / TSan for lifetime and races
            core_free("C14.core.rwlock.free", "c01", T(tier, 5, 90), alloc="reuse", extra=["strat=rwlock"]),
            core_free("C14.core.rwlock.quarantine", "c05", T(tier, 4, 60), alloc="quarantine", extra=["strat=rwlock"]),
            core_free("C14.core.rwlock.asan", "c01", T(tier, 4, 60), flavour="asan", alloc="real", val="arc", extra=["strat=rwlock"]),
            core_free("C14.core.rwlock.tsan", "c01", T(tier, 4, 60), flavour="tsan", alloc="real", val="arc", shards=1, extra=["strat=rwlock"]),
        ]

    def ev(merged, results):
        c = merged["counters"]
        return {"evaluations": c.get("seq.programs", 0) * 3, "programs": c.get("seq.programs", 0), "strategies": ["default", "fallback-only", "rwlock"],
                "steps_per_strategy": c.get("seq.steps_per_strategy", 0)}
    return {
        "level": "exploration",
        "jobs": jobs,
        "rule": ("One evaluation = one seeded random single-threaded program (10-80 API calls over <= 3 containers, a pool of 6 values plus None, <= 12 live guards; "
                 "every constructor (new / from / with_strategy / into) / load / load_full / Guard::into_inner / Guard::from_inner / Guard::from / guard drop in any order / store / swap / "
                 "compare_and_swap with every form of current / rcu incl. re-entrant store and the identity closure / Debug formatting / into_inner / drop; values Tp, Option<Arc>, Option<Rc>) run under one strategy and compared with the plain-variable model after every step; "
                 "each program is run under all three strategies. Non-trivial = at least 10 steps executed; distinct = distinct (result-sequence hash, length)."),
        "evidence": ev,
        "assumptions": ["The model is a 60-line plain-variable interpreter; counts are compared through the conservation law at every step (every step of a sequential program is a quiescent point)."],
        "min_evaluations": {"quick": 10000, "thorough": 500000},
    }


def plan_c15():
    def jobs(tier, seed):
        return [
            {"name": "C15.kinds.native", "flavour": "native", "args": ["kinds"], "shards": 1, "threads": 1, "timeout": 300},
            {"name": "C15.kinds.asan", "flavour": "asan", "args": ["kinds"], "shards": 1, "threads": 1, "timeout": 300},
            {"name": "C15.kinds.miri", "flavour": "miri", "args": ["kinds"], "miri_seeds": 1, "timeout": 900},
            # the weak kind as the stored value of concurrently used containers (null mapping of the dangling Weak, weak counts, targets not kept alive)
            core_token("C15.weak.token", "c12", T(tier, 1500, 60000), alloc="real", extra=["val=weak"]),
            core_free("C15.weak.free.asan", "c12", T(tier, 5, 60), flavour="asan", alloc="real", val="weak"),
            {"name": "C15.weak.miri", "flavour": "miri", "args": ["core", "profile=c12", "mode=free", "alloc=real", "val=weak", "execs=1", "threads=3", "ops_lo=5", "ops_hi=8"],
             "miri_seeds": T(tier, 4, 64), "timeout": 1500},
        ]

    def ev(merged, results):
        c = merged["counters"]
        runs = len([r for r in results if r["report"] and r["job"].startswith("C15.kinds")])
        return {"evaluations": c.get("kinds.cells", 0) + merged["execs"] - c.get("kinds.cells", 0), "distinct_nontrivial": c.get("kinds.cells", 0) // max(1, runs), "law_checks": c.get("kinds.law_checks", 0),
                "grid_cells_per_run": c.get("kinds.cells", 0) // max(1, runs), "exhaustive": True, "weak_container_histories_checked": c.get("histories.linearizable", 0),
                "tools": sorted(set(r["flavour"] for r in results if r["report"]))}
    return {
        "level": "exploration",
        "jobs": jobs,
        "rule": ("One evaluation = one cell of the finite grid {Arc, Rc, Option<Arc>, Option<Rc>, Option<Option<Arc>>, Weak, rc::Weak, Option<Weak>} x "
                 "{ZST, u8, u64, align(64), String, [u64;33]} x {unique, shared, with weak refs, target dropped, dangling, None, nested empties} with 14 law "
                 "checks each (raw round trip, as_ptr vs into_ptr, inc, dec, null mapping, container round trip), plus address-distinctness and "
                 "weak-container cells; the grid is enumerated completely, natively, under ASan and under Miri. Every cell is non-trivial; "
                 "distinct_nontrivial = number of distinct cells. In addition the core concurrent workload runs with Weak<_> as the stored value (dangling Weak as the empty "
                 "value, targets held by a keeper that lets go at the end): histories, ASan / LSan / Miri."),
        "evidence": ev,
        "assumptions": ["'Never dereferenced / never counted' for the empty values is decided by Miri and AddressSanitizer on the same grid."],
        "min_evaluations": {"quick": 100, "thorough": 100},
    }


PLANS["C10"] = plan_c10()
PLANS["C11"] = plan_c11()
PLANS["C14"] = plan_c14()
PLANS["C15"] = plan_c15()


def plan_prog(prop):
    pid = "C%02d" % prop

    def jobs(tier, seed):
        return [
            {"name": pid + ".prog.quarantine", "flavour": "native", "args": ["prog", "prop=%d" % prop, "execs=%d" % T(tier, 6000, 400000)], "shards": 4, "threads": 4, "timeout": 2400},
            {"name": pid + ".prog.reuse", "flavour": "native", "args": ["prog", "prop=%d" % prop, "alloc=reuse", "execs=%d" % T(tier, 3000, 200000)], "shards": 4, "threads": 4, "timeout": 2400},
        ]

    def ev(merged, results):
        c = merged["counters"]
        e = core_evidence(merged, results)
        e["frozen_at_site"] = {k[len("frozen_at."):]: v for k, v in c.items() if k.startswith("frozen_at.")}
        e["situations"] = {k[len("prog.situation."):]: v for k, v in c.items() if k.startswith("prog.situation.")}
        e["measured"] = {k: v for k, v in c.items() if k.startswith(("c08.", "c09."))}
        e["max_own_steps"] = {k: v for k, v in merged["maxima"].items() if k.startswith(("c08.", "c09."))}
        e["bound"] = "64 own steps per load" if prop == 8 else "50 + 70 x #nodes own steps per operation, counted from the freeze"
        return e

    def req(merged):
        c = merged["counters"]
        need = []
        if prop == 8:
            for k in ["c08.loads.solo", "c08.loads.random", "c08.loads.adversary", "c08.loads.freeze", "c08.victim_ran_frozen", "load.fallback_confirmed", "load.fallback_helped", "load.fast_changed_debt_returned"]:
                if c.get(k, 0) == 0:
                    need.append("never happened: " + k)
        else:
            groups = {
                "reader frozen inside the read-intent window of the fallback": ["FALLBACK_LOAD", "CONFIRM_SLOT", "CONFIRM_CTRL"],
                "reader frozen between slot publication and the confirming read": ["ATTEMPT_CONFIRM"],
                "writer frozen inside the debt walk": ["PAYALL_NODE", "DEBT_PAY", "WRITER_SUB"],
                "writer frozen inside help": ["HELP_CTRL_LOAD", "HELP_ADDR_LOAD", "HELP_REPLACEMENT", "HELP_SPACE_LOAD", "HELP_HANDOVER_STORE", "HELP_CTRL_CAS", "HELP_CAS_OK", "HELP_CAS_LOST"],
                "thread frozen while claiming or cooling a node": ["NODE_CLAIM", "COOLDOWN_CHECK", "COOLDOWN_WRITERS", "COOLDOWN_CAS", "COOLDOWN_START", "LIST_HEAD_LOAD"],
            }
            for what, sites in groups.items():
                if sum(c.get("frozen_at." + s, 0) for s in sites) == 0:
                    need.append("no probe with a " + what)
            for k in ["c09.fresh_prober", "c09.midop_prober"]:
                if c.get(k, 0) == 0:
                    need.append("never happened: " + k)
        return need
    rule8 = ("One evaluation = one TOKEN-scheduled execution: a victim thread that already used the crate holds g in {0,7,8,9,20} guards and performs 6-14 "
             "measured loads (load / load_full), each under a budget of 64 of its own step points, while 1-3 writers run under one of four schedulers: never "
             "(solo), random, an adversary completing 1-3 whole writes after EVERY victim step, or all other threads frozen for good at a random global step "
             "(possibly in the middle of a victim load). All executions are non-trivial; distinct = distinct schedule-trace hash (union over shards).")
    rule9 = ("One evaluation = one TOKEN-scheduled execution: at a random global step every thread except the prober is frozen at its current step point; the "
             "prober (a writer caught mid-operation, or a thread that has not used the crate yet; optionally next to a thread that exited early) completes its "
             "operation and runs store, swap, compare_and_swap, rcu, load_full, load, guard drop, handle drop alone, each within 50 + 70 x #nodes own steps "
             "counted from the freeze; afterwards everything resumes and the conservation law / histories are checked. Distinct = distinct schedule-trace hash.")
    return {
        "level": "exploration",
        "jobs": jobs,
        "rule": rule8 if prop == 8 else rule9,
        "evidence": ev,
        "required": req,
        "assumptions": [
            "Progress is restated as bounded progress in the caller's own step points (crate hooks + harness pointer methods) under schedules the harness forces; a bound on hooked steps bounds shared-memory operations, not instructions.",
            "Loops without any step point are caught only by the watchdog rule (token holder inside a crate call, no step for 15 s, thread state R with growing CPU time or S/D on four samples).",
        ],
        "min_evaluations": {"quick": 5000, "thorough": 300000},
    }


PLANS["C08"] = plan_prog(8)
PLANS["C09"] = plan_prog(9)


def plan_c13():
    def jobs(tier, seed):
        js = [
            {"name": "C13.wrap.token", "flavour": "native", "args": ["wrap", "mode=token", "reps=%d" % T(tier, 6, 400), "nshards=4"], "shards": 4, "threads": 3, "timeout": 2400},
            {"name": "C13.wrap.token.reuse", "flavour": "native", "args": ["wrap", "mode=token", "alloc=reuse", "reps=%d" % T(tier, 3, 200), "nshards=4"], "shards": 4, "threads": 3, "timeout": 2400},
            {"name": "C13.wrap.free", "flavour": "native", "args": ["wrap", "mode=free", "reps=%d" % T(tier, 4, 300), "nshards=4"], "shards": 4, "threads": 3, "timeout": 2400},
            {"name": "C13.wrap.free.asan", "flavour": "asan", "args": ["wrap", "mode=free", "alloc=real", "val=arc", "reps=%d" % T(tier, 2, 100), "nshards=4"], "shards": 4, "threads": 3, "timeout": 2400},
            core_token("C13.core.token", "c01", T(tier, 800, 40000)),
            # three containers on the fallback-only strategy: writers of one container meet readers of another in every helping state
            core_token("C13.core.token.fill", "c12", T(tier, 2500, 80000), strat="fill"),
            core_free("C13.core.free.fill", "c12", T(tier, 6, 60), alloc="reuse", shards=4, extra=["strat=fill"], threads=4),
            life_job("C13.life.token", "token", execs=T(tier, 300, 15000)),
            # "no call panics, aborts or hangs" for the rest of the API too: caches, projections (step budget / watchdog / panic hook are on in every workload)
            core_token("C13.core.token.cache", "c16", T(tier, 1200, 40000)),
            {"name": "C13.cache.native", "flavour": "native", "args": ["cache", "execs=%d" % T(tier, 200, 10000), "rounds=%d" % T(tier, 10, 200)], "shards": 2, "threads": 4, "timeout": 1200},
            {"name": "C13.access.token", "flavour": "native", "args": ["access", "mode=token", "execs=%d" % T(tier, 1500, 100000)], "shards": 2, "threads": 4, "timeout": 2400},
        ]
        for k in ([1] if tier == "quick" else [0, 1, 2, 5, 9, 16]):
            js.append({"name": "C13.wrap.miri.k%d" % k, "flavour": "miri", "args": ["wrap", "mode=free", "alloc=real", "reps=1", "k=%d" % k], "miri_seeds": T(tier, 4, 24), "timeout": 1500})
        return js

    def ev(merged, results):
        c = merged["counters"]
        e = core_evidence(merged, results)
        e["wraps_executed"] = c.get("wrap.wraps_executed", 0)
        e["wraps_inside_nested_replacement_load"] = c.get("wrap.wraps_inside_nested_replacement_load", 0)
        e["executions_per_situation"] = {k: v for k, v in c.items() if k.startswith("wrap.situation.")}
        e["executions_per_preset"] = {k: v for k, v in c.items() if k.startswith("wrap.preset_k.")}
        e["fault_points"] = "17 counter presets x 3 situations x 2 ways onto the slow path"
        e["full_cycle_scenarios_completed"] = c.get("wrap.full_cycle.script_completed", 0)
        e["crate_panics"] = merged.get("crate_panics", [])
        return e

    def req(merged):
        c = merged["counters"]
        need = []
        for k in range(17):
            if c.get("wrap.preset_k.%02d" % k, 0) == 0:
                need.append("preset k=%d never run" % k)
        for s_ in range(3):
            if c.get("wrap.situation.%d" % s_, 0) == 0:
                need.append("situation %d never run" % s_)
        if c.get("wrap.wraps_executed", 0) < 20:
            need.append("fewer than 20 wraps executed")
        if c.get("wrap.full_cycle.script_completed", 0) < 16:
            need.append("fewer than 16 full-cycle scenarios completed their script")
        return need
    return {
        "level": "fault_enumeration",
        "jobs": jobs,
        "rule": ("Fault points = the 17 presets of the thread's slow-path transaction counter (the wrap then falls on the 1st .. 17th slow-path load) x 3 situations "
                 "(no writer; writers helping that transaction; the wrap inside a writer's nested replacement load) x 2 ways onto the slow path (fallback-only "
                 "strategy, default strategy with >8 guards held): all 102 cells are enumerated `reps` times with different workload / schedule seeds (TOKEN and "
                 "free-running, plus Miri for small k), followed by 20-60 more operations per thread and all core oracles. Plus 16 scripted full-cycle scenarios per TOKEN "
                 "shard 0 (a writer parked at one of 4 points inside help() keeps a replacement for generation X while the reader's counter wraps after 1-4 loads "
                 "and, preset forward, reaches X again: the old replacement must not be accepted). In addition every execution of the core "
                 "and lifecycle workloads runs under the panic hook. One evaluation = one execution; non-trivial = a load overlapped a write; distinct = distinct "
                 "(schedule trace, cell)."),
        "evidence": ev,
        "required": req,
        "assumptions": ["The counter is preset through the verif-hooks accessor; histories longer than usize::MAX/4 slow-path reads are represented by the preset, not executed.",
                        "A panic is attributed to the crate if its location is inside /repo; a hang is decided by the watchdog rules."],
        "min_evaluations": {"quick": 500, "thorough": 30000},
    }


PLANS["C13"] = plan_c13()

PLANS["C16"] = plan_core("C16", "c16", "cache loads as reads in the history + ledger accounting of the retained value",
                         extra_jobs=lambda tier, seed: [miri_core_job("C16", "c16", tier, 4, 96),
                                                        # every way of building and reading a cache, incl. the Access trait on a plain Cache (Arc<Payload> values)
                                                        {"name": "C16.cache.native", "flavour": "native", "args": ["cache", "execs=%d" % T(tier, 400, 20000), "rounds=%d" % T(tier, 10, 200)], "shards": 2, "threads": 4, "timeout": 1200},
                                                        {"name": "C16.cache.asan", "flavour": "asan", "args": ["cache", "execs=%d" % T(tier, 200, 5000), "rounds=%d" % T(tier, 6, 60)], "shards": 2, "threads": 4, "timeout": 1200},
                                                        {"name": "C16.cache.miri", "flavour": "miri", "args": ["cache", "nohooks", "execs=6", "rounds=2", "stores=6"], "miri_seeds": T(tier, 6, 64), "timeout": 900}],
                         required=["cache.loads", "cache.loads_mapped", "cache.loads_that_observed_a_change", "cache.cloned", "load.fallback_confirmed"])
PLANS["C16"]["rule"] = CORE_RULE + (" Profile c16: about 3 of 8 operations are Cache::load on a per-thread cache (plain, mapped or a clone) of a container that other "
                                     "threads store into (fresh values, the same value again, None); each cache load is recorded as a read of the container with SeqCst stamps. "
                                     "The `cache` jobs run seeded sequential programs (reference model: a plain variable; six ways of reading: inherent load, the Access trait on a plain "
                                     "Cache, a generic Access bound, MapCache, clones; caches over &ArcSwap and Arc<ArcSwap>) with count checks (one reference per cache, none on the "
                                     "replaced value) and free-running rounds in which a writer hands the completion of each store over through an atomic.")


def plan_c17():
    def jobs(tier, seed):
        return [
            {"name": "C17.access.token", "flavour": "native", "args": ["access", "mode=token", "execs=%d" % T(tier, 6000, 400000)], "shards": 4, "threads": 4, "timeout": 2400},
            {"name": "C17.access.free", "flavour": "native", "args": ["access", "mode=free", "execs=%d" % T(tier, 3000, 200000)], "shards": 3, "threads": 5, "timeout": 2400},
            {"name": "C17.access.free.asan", "flavour": "asan", "args": ["access", "mode=free", "execs=%d" % T(tier, 1500, 100000)], "shards": 3, "threads": 5, "timeout": 2400},
            {"name": "C17.access.miri", "flavour": "miri", "args": ["access", "mode=free", "execs=%d" % T(tier, 2, 3)], "miri_seeds": T(tier, 8, 128), "timeout": 1500},
        ] + miri_sb_jobs("C17", tier) + cross_jobs("C17", tier, "c03") + [
            # the machinery under the projections: empty values, thread exit / node adoption (a projection guard is a guard)
            core_token("C17.x.core.token", "c01", T(tier, 1200, 30000), shards=2),
            life_job("C17.x.life.token", "token", execs=T(tier, 1000, 30000), profile="c03")]

    def ev(merged, results):
        c = merged["counters"]
        return {"projection_guards_by_chain": {k[len("access.chain."):]: v for k, v in c.items() if k.startswith("access.chain.")},
                "histories_checked": c.get("histories.linearizable", 0),
                "store_buffering_litmus_rounds": {k[3:]: v for k, v in c.items() if k.startswith("sb.")}}

    def req(merged):
        c = merged["counters"]
        names = [k for k in c if k.startswith("access.chain.")]
        return [] if len(names) >= 12 else ["only %d of the 12 projection chains were exercised" % len(names)]
    return {
        "level": "exploration",
        "jobs": jobs,
        "rule": ("One evaluation = one seeded execution: 1-2 writers store fresh nested roots into one container while 1-3 readers load through one of 12 projection "
                 "chains (plain load, direct deref, through Arc, Map depth 1-3 incl. through an inner Arc / Box / &, Box<dyn DynAccess>, AccessConvert, Arc<dyn>, identity "
                 "projection, Map over Constant), keep up to 6 projection guards (each moved into a box after creation), re-check all of them after every operation "
                 "and drop them in random order; loads are recorded as reads of the container and linearized against the stores; at the end all chains are compared on the "
                 "quiet container. TOKEN-scheduled, free-running, under ASan and Miri. All executions are non-trivial (stores overlap held guards); distinct = distinct "
                 "schedule trace (TOKEN) / seed (free). The `miri.sb` jobs add rounds of a store-buffering litmus test (one read flavour in four goes through a Map) "
                 "under Miri's weak-memory emulation: a load started after a completed store must project that store's value or a later one."),
        "evidence": ev,
        "required": req,
        "assumptions": ["Root values carry a drop flag outside the value and poison their ids in the destructor, so a projection guard that outlives its snapshot is seen without relying on the sanitizer; ASan / Miri decide the memory accesses proper."],
        "min_evaluations": {"quick": 5000, "thorough": 300000},
    }


PLANS["C17"] = plan_c17()


def plan_c20():
    def jobs(tier, seed):
        return [
            {"name": "C20.serde.native", "flavour": "native", "args": ["serde", "values=%d" % T(tier, 5000, 200000)], "shards": 4, "threads": 1, "timeout": 1200},
            {"name": "C20.serde.asan", "flavour": "asan", "args": ["serde", "values=%d" % T(tier, 1500, 50000)], "shards": 4, "threads": 1, "timeout": 1200},
            {"name": "C20.serde.miri", "flavour": "miri", "args": ["serde", "values=%d" % T(tier, 1, 3)], "miri_seeds": T(tier, 4, 32), "timeout": 1500},
            # serialization racing with stores from another thread, all three strategies
            {"name": "C20.serde.conc.native", "flavour": "native", "args": ["serde", "values=10", "rounds=%d" % T(tier, 40, 2000)], "shards": 2, "threads": 3, "timeout": 1200},
            {"name": "C20.serde.conc.asan", "flavour": "asan", "args": ["serde", "values=10", "rounds=%d" % T(tier, 20, 600)], "shards": 2, "threads": 3, "timeout": 1200},
            {"name": "C20.serde.conc.tsan", "flavour": "tsan", "args": ["serde", "values=10", "rounds=%d" % T(tier, 10, 300)], "shards": 2, "threads": 3, "timeout": 1200},
            {"name": "C20.serde.conc.miri", "flavour": "miri", "args": ["serde", "nohooks", "values=1", "rounds=1", "stores=5"], "miri_seeds": T(tier, 8, 96), "timeout": 1500},
        ]

    def ev(merged, results):
        c = merged["counters"]
        return {"evaluations": c.get("serde.values", 0) + c.get("serde.concurrent.rounds", 0), "law_checks": c.get("serde.law_checks", 0),
                "concurrent_rounds": c.get("serde.concurrent.rounds", 0), "serializations_racing_with_stores": c.get("serde.concurrent.serializations", 0),
                "strategies": ["default", "fallback-only", "rwlock"], "flavours": sorted(set(r["flavour"] for r in results if r["report"]))}
    return {
        "level": "exploration",
        "jobs": jobs,
        "rule": ("One evaluation = one seeded random value (nested struct with integers, strings incl. escapes and non-ASCII, optional boxed recursion to depth 3, vectors, "
                 "tuples, char, map, unit, all four enum variant shapes) plus its scalar / string / Option<Vec> parts, pushed through ~95 law checks: container vs "
                 "pointee serialization (string and token tree) for ArcSwap and ArcSwapOption (Some / None) under the three default-constructible strategies, "
                 "serialization after a store, deserialization (value and reference count), round trip, a store made from inside the pointee's Serialize impl "
                 "(snapshot must be unaffected and alive), deserialize_in_place with guards outstanding. The `conc` jobs add rounds (one evaluation each) in which two threads "
                 "serialize a container while a third stores fresh probe values into it, for each of the three strategies, natively, under ASan, TSan and Miri: every output must "
                 "be one whole live probe and a thread's outputs never go backwards. Non-trivial: every value / round; distinct = distinct serialized form."),
        "evidence": ev,
        "assumptions": ["serde_json's Value / string rendering is used as the observation of serde's data model (it distinguishes all value shapes generated here)."],
        "min_evaluations": {"quick": 500, "thorough": 20000},
    }


PLANS["C20"] = plan_c20()


def plan_c18():
    def jobs(tier, seed):
        return [
            {"name": "C18.panic.seq", "flavour": "native", "args": ["panic", "mode=seq", "execs=%d" % T(tier, 2500, 60000), "cap=%d" % T(tier, 8, 16)], "shards": 4, "threads": 1, "timeout": 2400},
            {"name": "C18.panic.token", "flavour": "native", "args": ["panic", "mode=token", "execs=%d" % T(tier, 800, 30000), "cap=%d" % T(tier, 8, 16)], "shards": 4, "threads": 3, "timeout": 2400},
            {"name": "C18.panic.token.reuse", "flavour": "native", "args": ["panic", "mode=token", "alloc=reuse", "execs=%d" % T(tier, 400, 15000)], "shards": 4, "threads": 3, "timeout": 2400},
            {"name": "C18.panic.seq.asan", "flavour": "asan", "args": ["panic", "mode=seq", "alloc=real", "execs=%d" % T(tier, 800, 20000)], "shards": 4, "threads": 1, "timeout": 2400},
        ]

    def ev(merged, results):
        c = merged["counters"]
        fired = c.get("panic.fired_total", 0)
        return {"evaluations": c.get("panic.plans_total", 0), "plans_run": c.get("panic.plans_total", 0), "plans_whose_panic_fired": fired,
                "invocations_of_user_code_in_counting_runs": {k[len("panic.invocations."):]: v for k, v in c.items() if k.startswith("panic.invocations.")},
                "plans_by_kind": {k[len("panic.plans."):]: v for k, v in c.items() if k.startswith("panic.plans.")},
                "fired_by_kind": {k[len("panic.fired."):]: v for k, v in c.items() if k.startswith("panic.fired.")},
                "directed_scenario": {k[len("panic.directed."):]: v for k, v in c.items() if k.startswith("panic.directed.")}}

    def req(merged):
        c = merged["counters"]
        need = []
        for k in ["rcu-closure", "into-conversion", "destructor", "projection"]:
            if c.get("panic.fired." + k, 0) == 0:
                need.append("no injected panic of kind " + k)
        if c.get("panic.fired.inside_debt_walk", 0) == 0:
            need.append("no destructor panic inside a writer's debt walk")
        if c.get("rcu.retried", 0) == 0:
            need.append("no rcu retry (closure panics on attempt >= 2 not covered)")
        return need
    return {
        "level": "fault_enumeration",
        "jobs": jobs,
        "rule": ("Fault plan = (kind of user code, n): the n-th invocation of the rcu closure / the Into conversion of its result / a pointee destructor / a projection function "
                 "(Cache::map, Map) / Constant's clone panics. For every seeded execution (single-threaded, or 2-3 TOKEN-scheduled threads, 8-16 operations each incl. rcu "
                 "with forced retries, compare_and_swap, cache loads, guards held) a counting run establishes the number of invocations per kind; then one run per kind and "
                 "position n (all positions up to `cap`, evenly spread beyond) is made; every operation runs under catch_unwind, the threads continue afterwards, and at the "
                 "end the history (panicked operation left open), the conservation law, slots, control words and leaks are checked. A directed three-thread schedule "
                 "additionally makes a helper's rejected replacement die inside a writer's debt walk. One evaluation = one plan; non-trivial = the plan's panic fired; "
                 "distinct = distinct (schedule trace, kind, n)."),
        "evidence": ev,
        "required": req,
        "assumptions": ["At most one injected panic per execution (no double panics); panics are injected in the main phase only, tear-down runs without injection.",
                        "Whatever the monitors report after an injected panic is folded into one report naming the injection context; known findings are keyed on that text."],
        "min_evaluations": {"quick": 2000, "thorough": 100000},
    }


PLANS["C18"] = plan_c18()
