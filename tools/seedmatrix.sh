#!/bin/bash
# usage: seedmatrix.sh <tier> <slot> <seed:check> ...   -> appends to ${MATRIX_OUT:-/tmp/st/matrix.txt}
TIER=$1; SLOT=$2; shift 2
for x in "$@"; do
  s=${x%%:*}; c=${x##*:}
  /verif/tools/seedtest.sh /verif/seeded/$s/patch.diff $SLOT $c $TIER > /tmp/st/mx_${s}_${c}_$TIER.txt 2>&1
  rc=$?
  props=$(grep '^VIOLATION' /tmp/st/mx_${s}_${c}_$TIER.txt | sed 's/.*property=\(C[0-9]*\).*/\1/' | sort | uniq -c | awk '{printf "%s×%s ", $2, $1}')
  he=$(grep -c '^HARNESS-ERROR' /tmp/st/mx_${s}_${c}_$TIER.txt)
  echo "$s $c $TIER rc=$rc viol=[$props] harness_errors=$he" >> ${MATRIX_OUT:-/tmp/st/matrix.txt}
done
