#!/usr/bin/env python3
"""Folds evaluation results (lines `<seed> <check> <tier> rc=<n> viol=[...]` as written by
tools/seedmatrix.sh / mutmatrix.sh) into seeded/<id>/meta.json (caught_by) and seeded/RESULTS.md.
usage: seedresults.py <matrix.txt> [<mutmatrix.txt> [<later-matrix.txt> ...]]
Rows of later matrices override earlier ones; `evaluated_at` is refreshed only for the seeds of the last matrix given."""
import json, os, re, sys, subprocess
ROOT = os.path.dirname(os.path.dirname(os.path.abspath(__file__)))
head = subprocess.run(["git", "-C", ROOT, "rev-parse", "--short", "HEAD"], capture_output=True, text=True).stdout.strip()
repo_head = subprocess.run(["git", "-C", "/repo", "rev-parse", "--short", "HEAD"], capture_output=True, text=True).stdout.strip()
rows = {}
last_seeds = set()
for f in [sys.argv[1]] + sys.argv[3:]:
    last_seeds = set()
    for l in open(f):
        m = re.match(r"(\S+) (\S+) (\S+) rc=(-?\d+) viol=\[(.*?)\]", l)
        if m:
            rows[(m.group(1), m.group(2), m.group(3))] = (int(m.group(4)), m.group(5).strip())
            last_seeds.add(m.group(1))
by_seed = {}
for (s, c, t), (rc, v) in rows.items():
    by_seed.setdefault(s, {})["%s/%s" % (c, t)] = {"exit": rc, "verdict": "caught" if rc == 1 else ("missed" if rc == 0 else "check-broken(%d)" % rc), "violations_reported": v}
lines = ["# Seeded changes vs. checks (verif commit %s, /repo %s)\n" % (head, repo_head),
         "| seed | property | needs | checks that caught it | checks that missed it |", "|---|---|---|---|---|"]
for d in sorted(os.listdir(os.path.join(ROOT, "seeded"))):
    mp = os.path.join(ROOT, "seeded", d, "meta.json")
    if not os.path.exists(mp):
        continue
    meta = json.load(open(mp))
    meta["caught_by"] = by_seed.get(d, meta.get("caught_by", {}))
    if d in last_seeds or "evaluated_at" not in meta:
        meta["evaluated_at"] = {"verif": head, "repo": repo_head, "how": "tools/seedtest.sh: scratch worktree of /repo HEAD with the patch applied + the committed harness; quick tier unless stated"}
    json.dump(meta, open(mp, "w"), indent=1)
    caught = sorted(k for k, v in meta["caught_by"].items() if v["verdict"] == "caught")
    missed = sorted(k for k, v in meta["caught_by"].items() if v["verdict"] == "missed")
    lines.append("| %s | %s | %s | %s | %s |" % (d, meta["property"], meta["needs"].replace("|", "/")[:160], ", ".join(caught) or "–", ", ".join(missed) or "–"))
if len(sys.argv) > 2 and os.path.exists(sys.argv[2]):
    lines += ["", "## Own mutation list (mutants/*.diff)", "", "| mutant | check | result |", "|---|---|---|"]
    for l in open(sys.argv[2]):
        m = re.match(r"(\S+) (\S+) (\S+) rc=(-?\d+) viol=\[(.*?)\]", l)
        if m:
            lines.append("| %s | %s/%s | %s %s |" % (m.group(1), m.group(2), m.group(3), "caught" if m.group(4) == "1" else ("missed" if m.group(4) == "0" else "exit " + m.group(4)), m.group(5)))
open(os.path.join(ROOT, "seeded", "RESULTS.md"), "w").write("\n".join(lines) + "\n")
print("updated", len(by_seed), "seeds")
