#!/bin/bash
# usage: mutmatrix.sh <tier> <slot> <mutant:check> ...  (own mutation list in /verif/mutants) -> /tmp/st/mutmatrix.txt
TIER=$1; SLOT=$2; shift 2
for x in "$@"; do
  s=${x%%:*}; c=${x##*:}
  /verif/tools/seedtest.sh /verif/mutants/$s.diff $SLOT $c $TIER > /tmp/st/mm_${s}_${c}_$TIER.txt 2>&1
  rc=$?
  props=$(grep -a '^VIOLATION' /tmp/st/mm_${s}_${c}_$TIER.txt | sed 's/.*property=\(C[0-9]*\).*/\1/' | sort | uniq -c | awk '{printf "%s×%s ", $2, $1}')
  echo "$s $c $TIER rc=$rc viol=[$props]" >> /tmp/st/mutmatrix.txt
done
