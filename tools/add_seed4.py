#!/usr/bin/env python3
"""Round 4: files a confirmed sub-agent change under seeded/<id>/ from the evaluation log written by the
round-4 queue (/tmp/st/r4_<id>.txt: output of tools/confirm_seed.sh followed by tools/seedtest.sh) and
appends its row to seeded/matrix4_raw.txt.  usage: add_seed4.py <id> "<needs text>" [check]"""
import json, os, re, shutil, subprocess, sys
ROOT = os.path.dirname(os.path.dirname(os.path.abspath(__file__)))
sid, needs = sys.argv[1], sys.argv[2]
prop = sid[:3]
check = sys.argv[3] if len(sys.argv) > 3 else prop
log = open("/tmp/st/r4_%s.txt" % sid, errors="replace").read() if len(sys.argv) <= 3 else open("/tmp/st/r4x_%s_%s.txt" % (sid, check), errors="replace").read()
src = "/tmp/sw/%s.out" % prop
d = os.path.join(ROOT, "seeded", sid)
repo_head = subprocess.run(["git", "-C", "/repo", "rev-parse", "--short", "HEAD"], capture_output=True, text=True).stdout.strip()
if len(sys.argv) <= 3:
    conf = re.search(r"^demo_\S+ (CONFIRMED|REJECTED).*$", log, re.M)
    if not conf or conf.group(1) != "CONFIRMED":
        sys.exit("not confirmed: %s" % (conf.group(0) if conf else "no confirm line"))
    os.makedirs(d, exist_ok=True)
    shutil.copy(os.path.join(src, sid + ".diff"), os.path.join(d, "patch.diff"))
    shutil.copy(os.path.join(src, "demo_%s.rs" % sid), os.path.join(d, "demo_%s.rs" % sid))
    if os.path.exists(os.path.join(src, sid + ".notes.md")):
        shutil.copy(os.path.join(src, sid + ".notes.md"), os.path.join(d, "notes.md"))
    miri = re.search(r"miri='(.*?)'", conf.group(0)).group(1)
    feat = "verif-hooks,internal-test-strategies,weak,serde"
    meta = {"id": sid, "property": prop, "round": 4, "needs": needs,
            "produced_by": "independent sub-agent (round 4) given only the property text, a list of mechanisms already taken and a scratch worktree",
            "patch": "patch.diff applies to /repo HEAD %s (with the fix: commits)" % repo_head,
            "demo": {"file": "demo_%s.rs" % sid, "place_at": "tests/demo_%s.rs" % sid,
                     "command": ("MIRIFLAGS='%s' cargo +nightly miri test --offline --features %s --test demo_%s" % (miri, feat, sid)) if miri else ("cargo test --offline --features %s --test demo_%s" % (feat, sid))},
            "confirmed": {"how": "tools/confirm_seed.sh on a scratch worktree of /repo HEAD (removed afterwards): demo without the change passes, `cargo test --offline` passes twice and `cargo nextest run` once with the change (demo file absent), demo with the change fails",
                          "result": conf.group(0)}}
    json.dump(meta, open(os.path.join(d, "meta.json"), "w"), indent=1)
st = re.search(r"^seedtest patch=\S+ check=(\S+) tier=(\S+) rc=(-?\d+)", log, re.M)
viol = {}
for m in re.finditer(r"^VIOLATION property=(C\d+)", log, re.M):
    viol[m.group(1)] = viol.get(m.group(1), 0) + 1
row = "%s %s %s rc=%s viol=[%s] harness_errors=%d\n" % (sid, st.group(1), st.group(2), st.group(3), " ".join("%s×%d" % kv for kv in sorted(viol.items())) + (" " if viol else ""), len(re.findall(r"^HARNESS-ERROR", log, re.M)))
open(os.path.join(ROOT, "seeded", "matrix4_raw.txt"), "a").write(row)
print(row.strip())
