#!/usr/bin/env python3
"""Rewrites the generated jobs table (section 0.5) in DESIGN.md from tools/plans.py."""
import os, sys
ROOT = os.path.dirname(os.path.dirname(os.path.abspath(__file__)))
sys.path.insert(0, os.path.join(ROOT, "tools"))
import plans

def desc(j):
    a = ' '.join(x for x in j['args'] if not x.startswith(('ops_', 'threads=', 'stall_s')))
    n = j.get('miri_seeds') if j['flavour'] == 'miri' else j.get('shards', 1)
    return "%s[%s] x%s" % (j['flavour'], a, n)

out = ["<!-- JOBS-BEGIN -->", "### 0.5 Jobs per check (generated from tools/plans.py; `xN` = shards, for Miri = seeds, one process each)\n"]
for pid in sorted(plans.PLANS):
    q = plans.PLANS[pid]['jobs']('quick', 1)
    t = plans.PLANS[pid]['jobs']('thorough', 1)
    out.append("* **%s** (%s)\n  quick: %s\n  thorough: %s" % (pid, plans.PLANS[pid]['level'], "; ".join(desc(j) for j in q), "; ".join(desc(j) for j in t)))
out.append("<!-- JOBS-END -->")
text = "\n".join(out) + "\n"
p = os.path.join(ROOT, "DESIGN.md")
s = open(p).read()
if "<!-- JOBS-BEGIN -->" in s:
    a = s.index("<!-- JOBS-BEGIN -->")
    b = s.index("<!-- JOBS-END -->") + len("<!-- JOBS-END -->\n")
    s = s[:a] + text + s[b:]
else:
    marker = "\n--------------------------------------------------------------------------------------------------\n\n## 1. What this family"
    s = s.replace(marker, "\n" + text + marker, 1)
open(p, "w").write(s)
print("DESIGN.md jobs table updated")
