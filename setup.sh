#!/bin/bash
# Build every flavour of the harness once (offline). Checks rebuild incrementally afterwards.
set -e
cd "$(dirname "$0")"
export CARGO_NET_OFFLINE=true
python3 - <<'PY'
import sys, os
sys.path.insert(0, os.path.dirname(os.path.abspath("check")))
import importlib.machinery, importlib.util
loader = importlib.machinery.SourceFileLoader("check", os.path.abspath("check"))
spec = importlib.util.spec_from_loader("check", loader)
m = importlib.util.module_from_spec(spec)
loader.exec_module(m)
for fl in ["native", "plain", "asan", "tsan"]:
    try:
        m.build(fl)
    except SystemExit as e:
        print("setup: build of %s failed: %s" % (fl, e))
        if fl in ("native",):
            raise
PY
